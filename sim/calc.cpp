// C19 — a calculation either completes or leaves its data bases untouched.
// Workload "calc": calculators x enumerated single-fault placements (guarded hook sites) and
// natural failures; snapshot oracle on both data bases; usability by repeating the call.
#include "worldgen.hpp"
#include "Calculators/CalcGridToGrid.hpp"
#include "Estimation/CalcImage.hpp"
#include "Enum/EMorpho.hpp"

#include "Basic/NamingConvention.hpp"
#include "Basic/VerifHook.hpp"
#include "Calculators/CalcMigrate.hpp"
#include "Calculators/CalcStatistics.hpp"
#include "Enum/EKrigOpt.hpp"
#include "Enum/EStatOption.hpp"
#include "Estimation/CalcKriging.hpp"
#include "Estimation/CalcSimpleInterpolation.hpp"
#include "Simulation/CalcSimuFFT.hpp"
#include "Simulation/CalcSimuTurningBands.hpp"
#include "Simulation/SimuFFTParam.hpp"
#include "Matrix/MatrixSquareSymmetric.hpp"

using namespace sk;

namespace {

// ---------------------------------------------------------------- snapshots
struct Snap
{
  bool null = true;
  int nech = 0;
  std::vector<std::string> names;
  std::vector<int> type, rank;
  std::vector<std::vector<double>> vals;
};
Snap snapOf(const Db* db)
{
  Snap s;
  if (db == nullptr) return s;
  s.null = false;
  s.nech = db->getSampleNumber();
  int nc = db->getColumnNumber();
  for (int ic = 0; ic < nc; ic++)
  {
    s.names.push_back(db->getNameByColIdx(ic));
    ELoc t;
    int r;
    db->getLocatorByColIdx(ic, &t, &r);
    s.type.push_back(t.getValue());
    s.rank.push_back(r);
    VectorDouble v = db->getColumnByColIdx(ic, false, false);
    s.vals.emplace_back(v.begin(), v.end());
  }
  return s;
}
bool sameCol(const std::vector<double>& a, const std::vector<double>& b)
{
  if (a.size() != b.size()) return false;
  for (size_t k = 0; k < a.size(); k++)
  {
    bool ua = isUndef(a[k]), ub = isUndef(b[k]);
    if (ua != ub) return false;
    if (!ua && !sameBits(a[k], b[k])) return false;
  }
  return true;
}
// "" when 'after' equals 'before' exactly (optionally ignoring roles)
std::string snapSame(const Snap& b, const Snap& a, bool roles)
{
  if (b.null != a.null) return "presence";
  if (b.null) return "";
  if (b.nech != a.nech) return "sample-count";
  if (a.names.size() > b.names.size()) return "extra-column(" + a.names[a.names.size() - 1] + ")";
  if (a.names.size() < b.names.size()) return "missing-column";
  for (size_t k = 0; k < b.names.size(); k++)
  {
    if (b.names[k] != a.names[k]) return "names(" + b.names[k] + "->" + a.names[k] + ")";
    if (!sameCol(b.vals[k], a.vals[k])) return "values(" + b.names[k] + ")";
  }
  if (roles)
    for (size_t k = 0; k < b.names.size(); k++)
      if (b.type[k] != a.type[k] || b.rank[k] != a.rank[k]) return "roles(" + b.names[k] + ")";
  return "";
}
// success case on the target db: pre-existing columns keep values, names and order; returns diff or ""
// and the indices of new columns
std::string snapPrefix(const Snap& b, const Snap& a, std::vector<int>& newCols)
{
  newCols.clear();
  if (b.null || a.null) return b.null == a.null ? "" : "presence";
  if (b.nech != a.nech) return "sample-count";
  if (a.names.size() < b.names.size()) return "missing-column";
  for (size_t k = 0; k < b.names.size(); k++)
  {
    if (b.names[k] != a.names[k]) return "names(" + b.names[k] + "->" + a.names[k] + ")";
    if (!sameCol(b.vals[k], a.vals[k])) return "values(" + b.names[k] + ")";
  }
  for (size_t k = b.names.size(); k < a.names.size(); k++) newCols.push_back((int)k);
  return "";
}

// ---------------------------------------------------------------- calculators
const char* CALCS[] = {"kriging", "xvalid", "test_neigh", "simtub", "simtub_nc", "simfft", "migrate", "migrateMulti", "migrateByLocator",
                       "statsOnGrid", "invdist", "nearest", "movave", "movmed", "lstsqr", "regression", "kribayes", "krigcell", "simbayes",
                       "g2gcopy", "g2gexpand", "g2gshrink", "morpho", "smooth", "krimage"};
const int NCALCS = 25;

struct Call
{
  std::string calc;
  int optA = 0, optB = 0, optC = 0; // calculator options
  int seed = 1234;
  int illform = 0;
};
Call callFromOp(const Op& op)
{
  Call c;
  c.calc = op.S(0, "kriging");
  c.optA = (int)op.I(0);
  c.optB = (int)op.I(1);
  c.optC = (int)op.I(2);
  c.seed = 100 + (int)(std::labs(op.I(3)) % 100000);
  c.illform = (int)op.I(4);
  return c;
}

const int NILL = 13;
const char* ILLNAMES[] = {"none", "no-z-role", "dbout-other-ndim", "model-other-nvar", "model-null", "neigh-null", "dbout-null",
                          "neigh-image", "zero-count", "all-data-masked", "drift-without-column", "unknown-name", "dbin-null",
                          "negative-discretisation"};

struct Invocation
{
  World* W;
  Call c;
  // the ingredients actually passed (may be substituted by an ill-formed flavour)
  Db* dbin;
  Db* dbout;
  Model* model;
  ANeigh* neigh;
  // owned substitutes
  Db* subDbout = nullptr;
  Model* subModel = nullptr;
  ANeigh* subNeigh = nullptr;
  std::vector<std::pair<std::string, std::pair<int, int>>> savedRoles; // for undo
  bool addedMask = false;
  int zeroCount = 0;
  std::string badName;

  ~Invocation()
  {
    delete subDbout;
    delete subModel;
    delete subNeigh;
  }
};

bool needsNeigh(const std::string& c)
{
  return c == "kriging" || c == "xvalid" || c == "test_neigh" || c == "simtub" || c == "movave" || c == "movmed" || c == "lstsqr" ||
         c == "kribayes" || c == "krigcell" || c == "simbayes";
}
bool needsModel(const std::string& c)
{
  return c == "kriging" || c == "xvalid" || c == "test_neigh" || c == "simtub" || c == "simtub_nc" || c == "simfft" || c == "kribayes" ||
         c == "krigcell" || c == "simbayes" || c == "krimage";
}
// where results are written
Db* targetOf(Invocation& iv)
{
  if (iv.c.calc == "xvalid" || iv.c.calc == "regression" || iv.c.calc == "morpho" || iv.c.calc == "smooth" || iv.c.calc == "krimage") return iv.dbin;
  return iv.dbout;
}

void applyIllform(Invocation& iv)
{
  World& W = *iv.W;
  switch (iv.c.illform)
  {
    case 1:
      if (iv.dbin) iv.dbin->clearLocators(ELoc::Z);
      break;
    case 2:
    {
      int nd = W.spec.ndim == 2 ? 3 : 2;
      iv.subDbout = DbGrid::create(VectorInt(nd, 3), VectorDouble(nd, 1.), VectorDouble(nd, 0.));
      iv.dbout = iv.subDbout;
      break;
    }
    case 3:
      iv.subModel = buildModel(W.spec, W.spec.nvar == 1 ? 2 : 1);
      iv.model = iv.subModel;
      break;
    case 4: iv.model = nullptr; break;
    case 5: iv.neigh = nullptr; break;
    case 6: iv.dbout = nullptr; break;
    case 7:
      iv.subNeigh = NeighImage::create(VectorInt(W.spec.ndim, 1), 1);
      iv.neigh = iv.subNeigh;
      break;
    case 8: iv.zeroCount = 1; break;
    case 9:
      if (iv.dbin)
      {
        VectorDouble s(iv.dbin->getSampleNumber(), 0.);
        iv.dbin->addSelection(s, "maskall");
        iv.addedMask = true;
      }
      break;
    case 10:
      iv.subModel = buildModel(W.spec);
      if (iv.subModel) iv.subModel->setDriftIRF(0, W.spec.nfex + 2);
      iv.model = iv.subModel;
      break;
    case 11: iv.badName = "nosuchvariable"; break;
    case 12: iv.dbin = nullptr; break;
    default: break;
  }
}

// expected number of new columns (-1: not tabulated)
int invoke(Invocation& iv, int& expectedNew)
{
  World& W = *iv.W;
  const Call& c = iv.c;
  const std::string& k = c.calc;
  int nvar = W.spec.nvar;
  expectedNew = -1;
  Db* dbin = iv.dbin;
  Db* dbout = iv.dbout;
  Model* model = iv.model;
  ANeigh* neigh = iv.neigh;
  if (k == "kriging")
  {
    bool est = (c.optA % 4) != 3, std_ = (c.optA % 4) != 0, varz = (c.optA % 8) >= 6 && W.spec.nfex == 0;
    if (!est && !std_ && !varz) est = true;
    bool block = ((c.optB % 5) == 0 || c.illform == 13) && dbout != nullptr && dbout->isGrid();
    VectorInt nd;
    if (block) nd = VectorInt(W.spec.ndim, 2);
    if (block && c.illform == 13) nd[0] = -2; // an invalid discretisation count: the run stage fails on it
    expectedNew = nvar * ((int)est + (int)std_ + (int)varz);
    return kriging(dbin, dbout, model, neigh, block ? EKrigOpt::BLOCK : EKrigOpt::POINT, est, std_, varz, nd);
  }
  if (k == "krigcell")
  {
    // needs block extensions on a point target: only meaningful on grids here
    VectorInt nd(W.spec.ndim, 2);
    expectedNew = -1;
    return krigcell(dbin, dbout, model, neigh, true, true, nd);
  }
  if (k == "xvalid")
  {
    bool kfold = false;
    int est = (c.optA % 3 == 0) ? -1 : 1, sd = (c.optA % 2) ? 1 : -1;
    expectedNew = nvar * 2;
    return xvalid(dbin, model, neigh, kfold, est, sd, 0);
  }
  if (k == "test_neigh")
  {
    expectedNew = 5;
    return test_neigh(dbin, dbout, model, neigh);
  }
  if (k == "simtub" || k == "simtub_nc")
  {
    int nbsimu = 1 + c.optA % 3;
    int nbtuba = 10 + c.optB % 40;
    if (iv.zeroCount) nbtuba = 0;
    expectedNew = nvar * nbsimu;
    if (k == "simtub_nc") return simtub(nullptr, dbout, model, nullptr, nbsimu, c.seed, nbtuba);
    return simtub(dbin, dbout, model, neigh, nbsimu, c.seed, nbtuba);
  }
  if (k == "simfft")
  {
    SimuFFTParam param;
    int nbsimu = 1 + c.optA % 2;
    if (iv.zeroCount) nbsimu = 0;
    DbGrid* g = dynamic_cast<DbGrid*>(dbout);
    expectedNew = -1;
    return simfft(g, model, param, nbsimu, c.seed);
  }
  if (k == "migrate")
  {
    expectedNew = 1;
    std::string nm = iv.badName.empty() ? "za" : iv.badName;
    return migrate(dbin, dbout, nm, 1, VectorDouble(), c.optA % 2, c.optB % 2, c.optC % 2);
  }
  if (k == "migrateMulti")
  {
    VectorString names = {"za"};
    if (nvar > 1) names.push_back("zb");
    if (!iv.badName.empty()) names.push_back(iv.badName);
    expectedNew = (int)names.size();
    return migrateMulti(dbin, dbout, names, 1, VectorDouble(), c.optA % 2, c.optB % 2, c.optC % 2);
  }
  if (k == "migrateByLocator")
  {
    expectedNew = nvar;
    return migrateByLocator(dbin, dbout, ELoc::Z, 1, VectorDouble(), c.optA % 2, c.optB % 2, c.optC % 2);
  }
  if (k == "statsOnGrid")
  {
    static const EStatOption* opers[] = {&EStatOption::MEAN, &EStatOption::NUM, &EStatOption::VAR, &EStatOption::MINI, &EStatOption::MAXI};
    DbGrid* g = dynamic_cast<DbGrid*>(dbout);
    expectedNew = -1;
    return dbStatisticsOnGrid(dbin, g, *opers[c.optA % 5], c.optB % 2);
  }
  if (k == "invdist")
  {
    expectedNew = 1;
    return inverseDistance(dbin, dbout, 1. + c.optA % 3, c.optB % 2, TEST, true, false, nullptr);
  }
  if (k == "nearest")
  {
    expectedNew = 1;
    return nearestNeighbor(dbin, dbout, true, false, nullptr);
  }
  if (k == "movave")
  {
    expectedNew = 1;
    return movingAverage(dbin, dbout, neigh, true, false, nullptr);
  }
  if (k == "movmed")
  {
    expectedNew = 1;
    return movingMedian(dbin, dbout, neigh, true, false, nullptr);
  }
  if (k == "lstsqr")
  {
    expectedNew = 1;
    return leastSquares(dbin, dbout, neigh, c.optA % 2);
  }
  if (k == "regression")
  {
    VectorString aux = {"xa"};
    if (W.spec.ndim > 1) aux.push_back("xb");
    if (!iv.badName.empty()) aux.push_back(iv.badName);
    expectedNew = 1;
    return dbRegression(dbin, "za", aux, 0, c.optA % 2 == 0);
  }
  if (k == "kribayes")
  {
    expectedNew = nvar * 2;
    // Bayesian kriging of the drift coefficients needs a drift: the universality condition, with its prior
    Model* mb = model ? model->clone() : nullptr;
    if (mb) mb->setDriftIRF(0, 0);
    MatrixSquareSymmetric pc(1);
    pc.setValue(0, 0, 2.);
    int r = kribayes(dbin, dbout, mb, neigh, VectorDouble{10.}, pc, true, true);
    delete mb;
    return r;
  }
  if (k == "g2gcopy" || k == "g2gexpand" || k == "g2gshrink")
  {
    DbGrid* gin = dynamic_cast<DbGrid*>(dbin);
    DbGrid* gout = dynamic_cast<DbGrid*>(dbout);
    expectedNew = 1;
    if (k == "g2gcopy") return dbg2gCopy(gin, gout);
    if (k == "g2gexpand") return dbg2gExpand(gin, gout);
    return dbg2gShrink(gin, gout);
  }
  if (k == "morpho")
  {
    // morphological operations on the (grid) data base itself: input and output are the same Db
    static const EMorpho* opers[] = {&EMorpho::THRESH, &EMorpho::NEGATION, &EMorpho::EROSION, &EMorpho::DILATION, &EMorpho::OPEN, &EMorpho::CLOSE};
    DbGrid* g = dynamic_cast<DbGrid*>(dbin);
    expectedNew = 1;
    return dbMorpho(g, *opers[c.optA % 6], 9., 11. + c.optB % 3, c.optC % 2, VectorInt(), false, false);
  }
  if (k == "smooth" || k == "krimage")
  {
    // image calculators: the grid is input and output, the neighbourhood is an image window
    DbGrid* g = dynamic_cast<DbGrid*>(dbin);
    NeighImage* ni = NeighImage::create(VectorInt(W.spec.ndim, 1 + c.optA % 2), c.optB % 2);
    expectedNew = 1;
    int r = (k == "smooth") ? dbSmoother(g, ni, 1 + c.optC % 2, 1.5) : krimage(g, model, ni);
    delete ni;
    return r;
  }
  if (k == "simbayes")
  {
    int nbsimu = 1 + c.optA % 2;
    int nbtuba = 10 + c.optB % 40;
    if (iv.zeroCount) nbtuba = 0;
    expectedNew = nvar * nbsimu;
    // Bayesian simulation: prior on the coefficient of the universality condition
    Model* mb = model ? model->clone() : nullptr;
    if (mb) mb->setDriftIRF(0, 0);
    MatrixSquareSymmetric pc(1);
    pc.setValue(0, 0, 2.);
    int r = simbayes(dbin, dbout, mb, neigh, nbsimu, c.seed, VectorDouble{10.}, pc, nbtuba);
    delete mb;
    return r;
  }
  return -99;
}

// which calculators make sense for a world
bool admissible(const std::string& k, const WorldSpec& w)
{
  if (k == "simfft") return w.outKind == 0 && w.nvar == 1 && w.nfex == 0 && w.ndim == 2; // 3-D FFT grids cost tens of seconds under ASan; dimension mismatch never returns (canary)
  if (k == "statsOnGrid") return w.outKind == 0;
  if (k == "krigcell") return false; // needs block extension columns: not built by this generator
  if (k == "kribayes" || k == "simbayes") return w.nfex == 0 && w.nvar == 1;
  // grid-to-grid and image calculators: the input Db is rebuilt as a grid related to the target grid (see gridInputFor)
  if (k == "g2gcopy" || k == "morpho" || k == "smooth" || k == "krimage") return w.outKind == 0 && w.nvar == 1 && w.nfex == 0 && w.selIn == 0;
  if (k == "g2gexpand") return w.outKind == 0 && w.nvar == 1 && w.nfex == 0 && w.selIn == 0 && w.ndim >= 2;
  if (k == "g2gshrink") return w.outKind == 0 && w.nvar == 1 && w.nfex == 0 && w.selIn == 0 && w.ndim <= 2;
  if (k == "simtub_nc") return w.nfex == 0;
  if (k == "simtub") return w.nfex == 0 || w.fexInData; // with an external drift carried by both data bases
  if (k == "lstsqr" || k == "movave" || k == "movmed") return w.neighKind == 1;
  return true;
}

std::string newColsDigest(const Snap& a, const std::vector<int>& cols)
{
  Digest d;
  for (int c : cols)
  {
    d.s(a.names[c]);
    for (double x : a.vals[c]) d.d(isUndef(x) ? std::nan("") : x);
  }
  d.i((long)cols.size());
  return d.hex();
}

// ---------------------------------------------------------------- one executed call (child side)
struct ExecOut
{
  int ret = 0;
  bool failed = false;
};

// Grid-to-grid and image calculators take a grid as input: the data base of the world is replaced by a grid that shares
// the leading (copy), fewer (expand) or more (shrink) dimensions of the target grid, with one variable 'za';
// for 'morpho' input and output are that one grid.
void gridInputFor(World& W, const std::string& calc)
{
  if (!(calc == "g2gcopy" || calc == "g2gexpand" || calc == "g2gshrink" || calc == "morpho" || calc == "smooth" || calc == "krimage")) return;
  DbGrid* out = dynamic_cast<DbGrid*>(W.dbout);
  if (out == nullptr) return;
  int nd = out->getNDim();
  int ndin = (calc == "g2gexpand") ? nd - 1 : (calc == "g2gshrink" ? nd + 1 : nd);
  if (ndin < 1 || ndin > 3) return;
  VectorInt nx;
  VectorDouble dx, x0;
  for (int d = 0; d < ndin; d++)
  {
    nx.push_back(d < nd ? out->getNX(d) : 3);
    dx.push_back(d < nd ? out->getDX(d) : 1.);
    x0.push_back(d < nd ? out->getX0(d) : 0.);
  }
  int nd0 = getDefaultSpaceDimension();
  defineDefaultSpace(ESpaceType::RN, ndin);
  DbGrid* gin = DbGrid::create(nx, dx, x0);
  defineDefaultSpace(ESpaceType::RN, nd0);
  VectorDouble z(gin->getSampleNumber());
  uint64_t s = W.spec.seed * 2862933555777941757ULL + 3037000493ULL;
  for (auto& v : z) { s = s * 6364136223846793005ULL + 1442695040888963407ULL; v = 8. + (double)((s >> 33) % 600) / 100.; }
  gin->addColumns(z, "za", ELoc::Z);
  if (W.dbin != W.dbout) delete W.dbin;
  W.dbin = gin;
  if (calc == "morpho" || calc == "smooth" || calc == "krimage") { delete W.dbout; W.dbout = gin; }
}

void execCall(const Plan& p, Ctx& c, bool traceMode, const std::string& expectDigest)
{
  childInit();
  g_cpuBudgetS = 12;
  const Op* wop = nullptr;
  const Op* cop = nullptr;
  for (auto& o : p.ops)
  {
    if (o.kind == "world") wop = &o;
    if (o.kind == "call") cop = &o;
  }
  if (!wop || !cop) { c.line("Z plan-without-world-or-call"); return; }
  World W;
  buildWorld(W, specFromOp(*wop));
  gridInputFor(W, callFromOp(*cop).calc);
  Invocation iv;
  iv.W = &W;
  iv.c = callFromOp(*cop);
  if (traceMode) iv.c.illform = 0;
  iv.dbin = W.dbin;
  iv.dbout = W.dbout;
  iv.model = W.model;
  iv.neigh = W.neigh;
  const std::string calc = iv.c.calc;
  std::string where = calc;
  c.begin(0, "world");
  c.end(0, dbDigest(W.dbin) + dbDigest(W.dbout));

  // snapshots BEFORE the ill-formed ingredient is planted are the reference for usability;
  // snapshots AFTER planting are the reference for "left untouched"
  applyIllform(iv);
  Snap inB = snapOf(iv.dbin), outB = snapOf(iv.dbout);
  Snap inOrigB = snapOf(W.dbin), outOrigB = snapOf(W.dbout);

  g_faults.reset();
  g_faults.traceOn = traceMode;
  if (!traceMode) g_faults.armed = cop->f;
  gstlearn_verif_cb = simkit_fault_cb;
  c.begin(1, "call." + calc);
  int expectedNew = -1;
  int ret = 0;
  bool escaped = false;
  std::string what;
  try
  {
    ret = invoke(iv, expectedNew);
  }
  catch (const std::exception& e)
  {
    escaped = true;
    what = e.what();
  }
  catch (...)
  {
    escaped = true;
    what = "unknown";
  }
  gstlearn_verif_cb = nullptr;
  long fired = g_faults.fired;
  std::string firedSite = g_faults.lastFired;
  std::string faultTag = iv.c.illform ? std::string("ill:") + ILLNAMES[iv.c.illform % (NILL + 1)] : (cop->f.empty() || traceMode ? "none" : cop->f[0].site);
  c.end(1, std::to_string(ret));
  if (traceMode)
    for (auto& t : g_faults.trace) c.line("T " + t.first + " " + std::to_string(t.second));
  if (fired) { c.count("fault." + firedSite, fired); c.count("site." + firedSite, fired); }
  if (iv.c.illform) c.count(std::string("fault.ill.") + ILLNAMES[iv.c.illform % (NILL + 1)]);
  c.fp(calc + "/" + faultTag + "/" + (ret ? "fail" : "ok"));
  {
    const WorldSpec& ws = W.spec;
    c.fp("w" + std::to_string(ws.ndim) + std::to_string(ws.nvar) + std::to_string(ws.nfex) + std::to_string(ws.fexInData) + std::to_string(ws.selIn) +
         std::to_string(ws.selOut) + std::to_string(ws.outKind) + std::to_string(ws.undefIn) + std::to_string(ws.neighKind) + std::to_string(ws.nstruct) +
         std::to_string(ws.extraCols) + "o" + std::to_string(iv.c.optA % 8) + std::to_string(iv.c.optB % 5));
  }
  const std::string P = "C19|";
  if (escaped)
  {
    c.violation(P + "exception-escaped|" + calc + "|" + faultTag, what);
    return;
  }
  if (ret == -99) { c.line("Z unknown-calculator " + calc); return; }
  bool failed = ret != 0;
  c.count(failed ? "outcome.reported-failure" : "outcome.reported-success");
  Db* target = targetOf(iv);
  Snap inA = snapOf(iv.dbin), outA = snapOf(iv.dbout);
  bool neutral = (!cop->f.empty() && !traceMode && cop->f[0].site == "neigh.nomemo");
  bool mustFail = fired > 0 && !neutral && firedSite != "krige.status";
  std::string digest = "-";

  if (failed)
  {
    c.count("probe.rollback-path");
    // both data bases exactly as before
    std::string d1 = snapSame(inB, inA, true);
    std::string d2 = (iv.dbout != iv.dbin) ? snapSame(outB, outA, true) : "";
    if (!d1.empty()) c.violation(P + "failure-left-changes|" + calc + "|dbin:" + d1, "after " + faultTag + ": dbin " + d1);
    if (!d2.empty()) c.violation(P + "failure-left-changes|" + calc + "|dbout:" + d2, "after " + faultTag + ": dbout " + d2);
    if (!d1.empty() || !d2.empty()) return; // usability is judged on clean state only
    if (neutral) { c.violation(P + "neutral-knob-failed|" + calc + "|neigh.nomemo", "recomputing the neighbourhood made the call fail"); return; }
    // usability: undo the ill-formed ingredient, repeat without fault on the same objects
    if (traceMode) return;
    if (iv.c.illform == 1 && W.dbin)
    {
      VectorString zn = {"za"};
      if (W.spec.nvar > 1) zn.push_back("zb");
      W.dbin->setLocators(zn, ELoc::Z, 0);
    }
    if (iv.addedMask && W.dbin) W.dbin->deleteColumn("maskall");
    Invocation again;
    again.W = &W;
    again.c = iv.c;
    again.c.illform = 0;
    again.dbin = W.dbin;
    again.dbout = W.dbout;
    again.model = W.model;
    again.neigh = W.neigh;
    // the selection role may have been displaced by the mask: restore it
    if (iv.addedMask && W.spec.selIn && W.dbin) W.dbin->setLocator("selin", ELoc::SEL, 0);
    {
      std::string r1 = snapSame(inOrigB, snapOf(W.dbin), true);
      if (!r1.empty()) { c.line("Z undo-illform-failed " + r1); return; }
    }
    int e2 = -1;
    c.begin(2, "repeat." + calc);
    int ret2 = 0;
    try { ret2 = invoke(again, e2); }
    catch (...) { c.violation(P + "unusable-after-failure|" + calc + "|" + faultTag + "|exception", "repeat call threw"); return; }
    c.end(2, std::to_string(ret2));
    Snap outA2 = snapOf(targetOf(again));
    std::vector<int> newCols;
    const Snap& before = (targetOf(again) == W.dbin) ? inOrigB : outOrigB;
    std::string pd = snapPrefix(before, outA2, newCols);
    digest = std::to_string(ret2) + ":" + newColsDigest(outA2, newCols);
    if (!expectDigest.empty() && digest != expectDigest)
      c.violation(P + "unusable-after-failure|" + calc + "|" + faultTag + "|repeat-differs",
                  "repeat after failure gives " + digest + " instead of " + expectDigest + " " + pd);
    else c.count("probe.usable-after-failure");
    return;
  }

  // ---- reported success
  if (mustFail)
    c.violation(P + "success-despite-failed-stage|" + calc + "|" + firedSite, "fault fired at " + firedSite + " but the call reported success");
  std::vector<int> newCols;
  if (target != iv.dbin && iv.dbin != nullptr)
  {
    std::string d1 = snapSame(inB, inA, true);
    if (!d1.empty()) c.violation(P + "success-changed-input|" + calc + "|dbin:" + d1, "with " + faultTag + ": dbin " + d1);
  }
  if (target != iv.dbout && iv.dbout != nullptr && iv.dbout != iv.dbin)
  {
    std::string d2 = snapSame(outB, outA, true);
    if (!d2.empty()) c.violation(P + "success-changed-other|" + calc + "|dbout:" + d2, "with " + faultTag + ": dbout " + d2);
  }
  const Snap& tB = (target == iv.dbin) ? inB : outB;
  const Snap& tA = (target == iv.dbin) ? inA : outA;
  std::string pd = snapPrefix(tB, tA, newCols);
  if (!pd.empty()) c.violation(P + "success-changed-existing|" + calc + "|" + pd, "with " + faultTag + ": target " + pd);
  if (expectedNew >= 0 && (int)newCols.size() != expectedNew && !mustFail && iv.c.illform == 0 && (fired == 0 || neutral))
    c.violation(P + "output-count|" + calc, "new columns " + std::to_string(newCols.size()) + " expected " + std::to_string(expectedNew));
  // masked targets keep the undefined value (estimation family)
  if (target != nullptr && target != iv.dbin && (calc == "kriging" || calc == "simtub" || calc == "simtub_nc" || calc == "invdist" || calc == "nearest" || calc == "movave" || calc == "movmed" || calc == "lstsqr" || calc == "kribayes"))
  {
    for (int ie = 0; ie < target->getSampleNumber(); ie++)
    {
      if (target->isActive(ie)) continue;
      for (int nc : newCols)
        if (!isUndef(tA.vals[nc][ie]))
        {
          c.count("probe.masked-target-written(C05-clause,not-judged-here)");
          ie = target->getSampleNumber();
          break;
        }
    }
  }
  digest = std::to_string(ret) + ":" + newColsDigest(tA, newCols);
  c.obs("out", digest);
  if (neutral && !expectDigest.empty() && digest != expectDigest)
    c.violation(P + "neutral-knob-changed-result|" + calc + "|neigh.nomemo", "result " + digest + " vs " + expectDigest);
  if (!newCols.empty()) c.count("probe.success-with-outputs");
}

struct CalcWorkload : Workload
{
  std::string prop() const override { return "C19"; }
  long defaultRuns(const Tier& t) const override { return t.thorough ? 8000 : 220; }
  std::string rule() const override
  {
    return "a run = one sampled configuration (world: data/target/model/neighbourhood; calculator + options) executed as: 1 trace child recording "
           "every (hook site, occurrence) reached, then one child per single-fault placement (all placements in thorough, strided cap 40 in "
           "quick) and one child per natural ill-formed ingredient; oracle = snapshots of both data bases before/after, repeat call for usability; "
           "distinct = (calculator, fault site or ill-formed kind, reported outcome) sequence hash; non-trivial = at least one fault fired or "
           "ill-formed ingredient planted and the oracle evaluated";
  }
  std::string exhaustiveNote() const override
  {
    return "thorough tier: complete over single-fault placements (site, occurrence) of each sampled configuration; not exhaustive over configurations";
  }
  std::vector<std::string> realComponents() const override
  {
    return {"ACalculator::run and every Calc* class invoked", "KrigingSystem", "ANeigh", "Db/DbGrid", "NamingConvention", "Model"};
  }
  std::vector<std::string> stubComponents() const override
  {
    return {"failure sources behind GSTLEARN_VERIF hook sites (calc.*, calc.addvar, krige.*, neigh.nomemo)", "message sinks"};
  }
  std::vector<std::string> assumptions() const override
  {
    return {"UID numbering, Model::field and the Db pointers attached to the neighbourhood are not part of a data base's content",
            "on success the roles of pre-existing target columns may move (documented naming-convention behaviour); values, names and order may not"};
  }

  Plan generate(uint64_t seed, long run, const Tier&) override
  {
    Plan p;
    p.prop = "C19";
    p.seed = seed;
    p.run = run;
    Rng r = stream(seed, "C19", run, "shape");
    Op w;
    w.kind = "world";
    for (int a = 0; a < 18; a++) w.i.push_back(r.range(0, 1000)); // [16] drift order, [17] tight moving neighbourhood
    WorldSpec spec = specFromOp(w);
    Op c;
    c.kind = "call";
    std::string k;
    for (int tries = 0; tries < 50; tries++)
    {
      k = CALCS[r.below(NCALCS)];
      if (admissible(k, spec)) break;
      k = "kriging";
    }
    c.s = {k};
    c.i = {r.range(0, 100), r.range(0, 100), r.range(0, 100), r.range(1, 99999), 0};
    p.ops = {w, c};
    p.setKnob("enumerate", 1);
    return p;
  }

  void execute(const Plan&, Ctx&) override {}

  RunResult runPlan(const Plan& p) override
  {
    RunResult rr;
    const Op* cop = nullptr;
    for (auto& o : p.ops) if (o.kind == "call") cop = &o;
    if (!cop) { rr.note = "no call"; return rr; }
    Tier tier;
    const char* te = getenv("VERIF_TIER");
    if (te && std::string(te) == "thorough") tier.thorough = true;
    // ---- trace pass
    ChildOutcome t = runChild([&](Ctx& c) { execCall(p, c, true, ""); }, 15);
    std::map<std::string, std::string> obs;
    foldChild(t, rr, &obs);
    Violation dv;
    auto derived = [&](const Fault* f, int illform) {
      Plan q = p;
      q.setKnob("enumerate", 0);
      for (auto& o : q.ops)
        if (o.kind == "call")
        {
          o.f.clear();
          if (f) o.f.push_back(*f);
          while (o.i.size() < 5) o.i.push_back(0);
          o.i[4] = illform;
        }
      return q;
    };
    if (deathViolation("C19", t, dv))
    {
      dv.sig += "|" + cop->S(0) + "|trace";
      dv.replay = derived(nullptr, 0).toText();
      rr.viol.push_back(dv);
      return rr;
    }
    for (auto& v : rr.viol) v.replay = derived(nullptr, 0).toText();
    std::string expect = obs.count("out") ? obs["out"] : "";
    std::vector<std::pair<std::string, long>> trace;
    for (auto& l : t.lines)
      if (l.rfind("T ", 0) == 0)
      {
        std::istringstream ls(l.substr(2));
        std::string s;
        long o;
        ls >> s >> o;
        trace.emplace_back(s, o);
      }
    auto runOne = [&](const Plan& q) {
      ChildOutcome co = runChild([&](Ctx& c) { execCall(q, c, false, expect); }, 15);
      size_t before = rr.viol.size();
      foldChild(co, rr);
      Violation v;
      if (deathViolation("C19", co, v))
      {
        const Op* qc = nullptr;
        for (auto& o : q.ops) if (o.kind == "call") qc = &o;
        std::string tag = qc->I(4) ? std::string("ill:") + ILLNAMES[qc->I(4) % (NILL + 1)] : (qc->f.empty() ? "none" : qc->f[0].site);
        v.sig += "|" + qc->S(0) + "|" + tag;
        rr.viol.push_back(v);
      }
      for (size_t k = before; k < rr.viol.size(); k++) rr.viol[k].replay = q.toText();
      rr.nontrivial = true;
    };
    bool explicitFault = !cop->f.empty() || cop->I(4) != 0;
    if (p.knob("enumerate", 0) == 0)
    {
      if (explicitFault) runOne(p);
      return rr;
    }
    // ---- enumeration of single-fault placements
    std::vector<Fault> placements;
    bool sawNeigh = false;
    for (auto& tr : trace)
    {
      if (tr.first == "neigh.nomemo") { sawNeigh = true; continue; }
      // "after the post-processing stage" is past the last statement of ACalculator::run that can fail: the shipped code
      // cannot fail there, so a failure injected at that site describes no reachable state (site traced, never armed)
      if (tr.first == "calc.postprocess") continue;
      Fault f;
      f.site = tr.first;
      f.occ = tr.second;
      placements.push_back(f);
    }
    if (sawNeigh) { Fault f; f.site = "neigh.nomemo"; f.occ = -1; placements.push_back(f); }
    rr.counters["placements.reached"] += (long)placements.size();
    size_t cap = tier.thorough ? 100000 : 40;
    std::vector<Fault> chosen;
    if (placements.size() <= cap) chosen = placements;
    else
    {
      // keep every distinct site's first and last occurrence, stride over the rest
      double step = (double)placements.size() / cap;
      for (size_t k = 0; k < cap; k++) chosen.push_back(placements[(size_t)(k * step)]);
      chosen.push_back(placements.back());
    }
    rr.counters["placements.executed"] += (long)chosen.size();
    for (auto& f : chosen) runOne(derived(&f, 0));
    // ---- natural failures
    bool specOut0 = false;
    for (auto& o : p.ops) if (o.kind == "world") specOut0 = specFromOp(o).outKind == 0;
    for (int ill = 1; ill <= NILL; ill++)
    {
      const std::string& k = cop->S(0);
      if (ill == 6 || ill == 12) continue; // null Db pointers are outside the property's quantifier (DESIGN §4 C19)
      if (ill == 13 && !(k == "kriging" && specOut0)) continue;
      // (ill == 2 with simfft used to never return: repaired in /repo, enumerated again)
      if (ill == 5 && !needsNeigh(k)) continue;
      if ((ill == 3 || ill == 4 || ill == 10) && !needsModel(k)) continue;
      if (ill == 7 && !needsNeigh(k)) continue;
      if (ill == 8 && !(k == "simtub" || k == "simtub_nc" || k == "simfft" || k == "simbayes")) continue;
      if (ill == 11 && !(k == "migrate" || k == "migrateMulti" || k == "regression")) continue;
      if ((ill == 1 || ill == 9 || ill == 12) && (k == "simtub_nc" || k == "simfft")) continue;
      if (ill == 6 && (k == "xvalid" || k == "regression" || k == "morpho" || k == "smooth" || k == "krimage")) continue;
      if (ill == 2 && (k == "xvalid" || k == "regression" || k == "morpho" || k == "smooth" || k == "krimage")) continue;
      runOne(derived(nullptr, ill));
    }
    return rr;
  }
};

} // namespace

namespace sk {
Workload* makeWorkload_C19() { return new CalcWorkload(); }
}
