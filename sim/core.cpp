#include "core.hpp"
#include <execinfo.h>
#include <malloc.h>
extern "C" void __sanitizer_symbolize_pc(void* pc, const char* fmt, char* out_buf, size_t out_buf_size);

#include <algorithm>
#include <cerrno>
#include <csignal>
#include <cstdlib>
#include <fcntl.h>
#include <fstream>
#include <iostream>
#include <new>
#include <poll.h>
#include <sys/resource.h>
#include <sys/stat.h>
#include <sys/time.h>
#include <sys/wait.h>
#include <unistd.h>

#include "geoslib_io.h"

// sanitizer defaults: classify deaths, no leak flood
extern "C" __attribute__((used, visibility("default"))) const char* __asan_default_options()
{
  return "exitcode=77:detect_leaks=0:allocator_may_return_null=1:abort_on_error=0:"
         "detect_stack_use_after_return=0:handle_abort=0:symbolize=1:max_malloc_fill_size=0:"
         "alloc_dealloc_mismatch=0:new_delete_type_mismatch=0";
}
extern "C" __attribute__((used, visibility("default"))) const char* __ubsan_default_options()
{
  return "halt_on_error=1:exitcode=77:print_stacktrace=1:suppressions=/verif/sim/ubsan.supp";
}

namespace sk {

// ================================================================ plan text
static std::string hexd(double v)
{
  char b[64];
  if (std::isnan(v)) return "nan";
  if (std::isinf(v)) return v > 0 ? "inf" : "-inf";
  snprintf(b, sizeof b, "%a", v);
  return b;
}
static double unhexd(const std::string& s)
{
  if (s == "nan") return std::nan("");
  if (s == "inf") return INFINITY;
  if (s == "-inf") return -INFINITY;
  return strtod(s.c_str(), nullptr);
}
std::string escapeStr(const std::string& s)
{
  std::string o;
  for (unsigned char c : s)
  {
    if (c == '\\' || c == ' ' || c == ',' || c == '\n' || c == '\t' || c == '%' || c < 32 || c > 126)
    {
      char b[8];
      snprintf(b, sizeof b, "%%%02x", c);
      o += b;
    }
    else
      o += (char)c;
  }
  if (o.empty()) o = "%";
  return o;
}
static std::string unescapeStr(const std::string& s)
{
  if (s == "%") return "";
  std::string o;
  for (size_t k = 0; k < s.size(); k++)
  {
    if (s[k] == '%' && k + 3 <= s.size())
    {
      o += (char)strtol(s.substr(k + 1, 2).c_str(), nullptr, 16);
      k += 2;
      continue;
    }
    o += s[k];
  }
  return o;
}
static std::vector<std::string> split(const std::string& s, char sep)
{
  std::vector<std::string> v;
  std::string cur;
  for (char c : s)
  {
    if (c == sep) { v.push_back(cur); cur.clear(); }
    else cur += c;
  }
  v.push_back(cur);
  return v;
}

std::string Plan::toText() const
{
  std::ostringstream o;
  o << "plan " << prop << " seed=" << seed << " run=" << run << "\n";
  for (auto& k : knobs) o << "knob " << k.first << " " << escapeStr(k.second) << "\n";
  for (auto& op : ops)
  {
    o << "op " << op.kind;
    if (!op.i.empty())
    {
      o << " i:";
      for (size_t k = 0; k < op.i.size(); k++) o << (k ? "," : "") << op.i[k];
    }
    if (!op.d.empty())
    {
      o << " d:";
      for (size_t k = 0; k < op.d.size(); k++) o << (k ? "," : "") << hexd(op.d[k]);
    }
    if (!op.s.empty())
    {
      o << " s:";
      for (size_t k = 0; k < op.s.size(); k++) o << (k ? "," : "") << escapeStr(op.s[k]);
    }
    o << "\n";
    for (auto& f : op.f) o << "  fault " << f.site << " " << f.occ << " " << f.mode << "\n";
  }
  o << "end\n";
  return o.str();
}

bool Plan::parse(const std::string& text, Plan& out, std::string* err)
{
  out = Plan();
  std::istringstream in(text);
  std::string ln;
  bool gotHeader = false;
  while (std::getline(in, ln))
  {
    std::istringstream ls(ln);
    std::string w;
    if (!(ls >> w)) continue;
    if (w[0] == '#') continue;
    if (w == "plan")
    {
      ls >> out.prop;
      std::string kv;
      while (ls >> kv)
      {
        if (kv.rfind("seed=", 0) == 0) out.seed = strtoull(kv.c_str() + 5, nullptr, 10);
        if (kv.rfind("run=", 0) == 0) out.run = atol(kv.c_str() + 4);
      }
      gotHeader = true;
    }
    else if (w == "knob")
    {
      std::string k, v;
      ls >> k >> v;
      out.knobs[k] = unescapeStr(v);
    }
    else if (w == "op")
    {
      Op op;
      ls >> op.kind;
      std::string part;
      while (ls >> part)
      {
        if (part.size() < 2 || part[1] != ':') continue;
        auto items = split(part.substr(2), ',');
        if (part[0] == 'i') for (auto& x : items) op.i.push_back(atol(x.c_str()));
        if (part[0] == 'd') for (auto& x : items) op.d.push_back(unhexd(x));
        if (part[0] == 's') for (auto& x : items) op.s.push_back(unescapeStr(x));
      }
      out.ops.push_back(op);
    }
    else if (w == "fault")
    {
      if (out.ops.empty()) { if (err) *err = "fault before op"; return false; }
      Fault f;
      ls >> f.site >> f.occ >> f.mode;
      out.ops.back().f.push_back(f);
    }
    else if (w == "end")
      break;
  }
  if (!gotHeader) { if (err) *err = "no plan header"; return false; }
  return true;
}

// ================================================================ sinks
long g_msgCount = 0, g_errCount = 0;
bool g_exitCalled = false;
static int g_eventFd = -1;
static void sinkMsg(const char*) { g_msgCount++; }
static void sinkErr(const char*) { g_errCount++; }
static void sinkExit()
{
  g_exitCalled = true;
  if (g_eventFd >= 0)
  {
    const char* m = "X exit-called\n";
    (void)!write(g_eventFd, m, strlen(m));
  }
  _exit(78);
}
void installSinks()
{
  redefine_message(sinkMsg);
  redefine_error(sinkErr);
  redefine_exit(sinkExit);
}

// ================================================================ faults
FaultState g_faults;
extern "C" int simkit_fault_cb(const char* site)
{
  std::string s(site);
  long occ = g_faults.seen[s]++;
  if (g_faults.traceOn) g_faults.trace.emplace_back(s, occ);
  if (!g_faults.enabledSites.empty() && !g_faults.enabledSites.count(s)) return 0;
  for (auto& f : g_faults.armed)
    if (f.site == s && (f.occ == occ || f.occ < 0))
    {
      g_faults.fired++;
      g_faults.lastFired = s;
      return f.mode == 0 ? 1 : (int)f.mode;
    }
  return 0;
}

// ================================================================ memory budget
static bool g_mbOn = false, g_mbExceeded = false, g_mbInherent = false;
static size_t g_mbPerAlloc = 0, g_mbTotal = 0, g_mbUsed = 0, g_mbPeak = 0;
void memBudgetStart(size_t perAlloc, size_t total)
{
  g_mbOn = true; g_mbExceeded = false; g_mbInherent = false; g_mbPerAlloc = perAlloc; g_mbTotal = total; g_mbUsed = 0; g_mbPeak = 0;
}
bool memBudgetInherent() { return g_mbInherent; }
void memBudgetStop() { g_mbOn = false; }
bool memBudgetExceeded() { return g_mbExceeded; }
size_t memBudgetPeak() { return g_mbPeak; }

} // namespace sk

// allocation budget while it is on: no single request above the per-allocation cap, and no more live bytes than the
// total (bytes given back are subtracted: churn - many small short-lived containers - is not memory exhaustion)
static void* sk_alloc(size_t n)
{
  using namespace sk;
  if (g_mbOn)
  {
    if (n > g_mbPerAlloc || g_mbUsed + n > g_mbTotal)
    {
      // Memory that an object of that kind needs however it is built is not the loader trusting a count: the spectral
      // correction of some covariance types works on a 2N^ndim array (1 GiB in 3-D) for API-built models as well.
      // The request is refused all the same (the run must stay small) but it is not a budget verdict.
      bool inherent = false;
      {
        // (the library is built with hidden visibility: frames are named by the sanitizer runtime's symbolizer)
        void* bt[48];
        int nb = backtrace(bt, 48);
        bool was = g_mbOn;
        g_mbOn = false; // the symbolizer allocates
        for (int i = 0; i < nb && !inherent; i++)
        {
          char name[512];
          name[0] = 0;
          __sanitizer_symbolize_pc(bt[i], "%f", name, sizeof name);
          if (strstr(name, "_evalCovFFT")) inherent = true;
        }
        g_mbOn = was;
      }
      if (inherent) { g_mbInherent = true; throw std::bad_alloc(); }
      g_mbExceeded = true;
      if (n > g_mbPeak) g_mbPeak = n;
      throw std::bad_alloc();
    }
    if (n > g_mbPeak) g_mbPeak = n;
  }
  void* p = malloc(n ? n : 1);
  if (!p) throw std::bad_alloc();
  if (g_mbOn) g_mbUsed += malloc_usable_size(p);
  return p;
}
static void sk_free(void* p)
{
  using namespace sk;
  if (p && g_mbOn)
  {
    size_t sz = malloc_usable_size(p);
    g_mbUsed = (g_mbUsed > sz) ? g_mbUsed - sz : 0;
  }
  free(p);
}
void* operator new(size_t n) { return sk_alloc(n); }
void* operator new[](size_t n) { return sk_alloc(n); }
void* operator new(size_t n, const std::nothrow_t&) noexcept
{
  try { return sk_alloc(n); } catch (...) { return nullptr; }
}
void* operator new[](size_t n, const std::nothrow_t&) noexcept
{
  try { return sk_alloc(n); } catch (...) { return nullptr; }
}
void operator delete(void* p) noexcept { sk_free(p); }
void operator delete[](void* p) noexcept { sk_free(p); }
void operator delete(void* p, size_t) noexcept { sk_free(p); }
void operator delete[](void* p, size_t) noexcept { sk_free(p); }
static void* sk_alloc_al(size_t n, std::align_val_t a)
{
  using namespace sk;
  if (g_mbOn && (n > g_mbPerAlloc || g_mbUsed + n > g_mbTotal))
  {
    g_mbExceeded = true;
    throw std::bad_alloc();
  }
  void* p = nullptr;
  size_t al = (size_t)a;
  if (al < sizeof(void*)) al = sizeof(void*);
  if (posix_memalign(&p, al, n ? n : 1) != 0) throw std::bad_alloc();
  if (g_mbOn) g_mbUsed += malloc_usable_size(p);
  return p;
}
void* operator new(size_t n, std::align_val_t a) { return sk_alloc_al(n, a); }
void* operator new[](size_t n, std::align_val_t a) { return sk_alloc_al(n, a); }
void operator delete(void* p, std::align_val_t) noexcept { sk_free(p); }
void operator delete[](void* p, std::align_val_t) noexcept { sk_free(p); }
void operator delete(void* p, size_t, std::align_val_t) noexcept { sk_free(p); }
void operator delete[](void* p, size_t, std::align_val_t) noexcept { sk_free(p); }

namespace sk {

// ================================================================ Ctx
void Ctx::line(const std::string& l)
{
  if (const char* ef = getenv("SIMKIT_ECHO_FILE"))
  {
    // debugging aid for replays: the event log of every child is appended to a file
    FILE* f = fopen(ef, "a");
    if (f) { fprintf(f, "[%d] %s\n", (int)getpid(), l.c_str()); fclose(f); }
  }
  if (fd < 0) return;
  std::string s = l;
  for (auto& c : s) if (c == '\n') c = ' ';
  s += "\n";
  size_t off = 0;
  while (off < s.size())
  {
    ssize_t n = write(fd, s.data() + off, s.size() - off);
    if (n < 0) { if (errno == EINTR) continue; break; }
    off += (size_t)n;
  }
}
int g_cpuBudgetS = 12;
static void cpuBudgetHandler(int)
{
  if (g_eventFd >= 0)
  {
    const char* m = "X budget-cpu\n";
    (void)!write(g_eventFd, m, strlen(m));
  }
  _exit(81);
}
// (re)arm the per-op CPU budget: an op that burns more than this much CPU time is a hang,
// whatever the load of the machine (the wall-clock watchdog of the parent is only a last resort)
static void armCpuBudget()
{
  static bool installed = false;
  if (!installed)
  {
    signal(SIGVTALRM, cpuBudgetHandler);
    installed = true;
  }
  struct itimerval it;
  memset(&it, 0, sizeof it);
  const char* e = getenv("SIMKIT_CPU_BUDGET_S");
  it.it_value.tv_sec = e ? atoi(e) : g_cpuBudgetS;
  setitimer(ITIMER_VIRTUAL, &it, nullptr);
}
void Ctx::begin(long idx, const std::string& kind)
{
  opIndex = idx;
  armCpuBudget();
  line("B " + std::to_string(idx) + " " + kind);
}
// a later phase of the same op: own CPU budget, visible in the event log
void Ctx::phase(const std::string& name)
{
  armCpuBudget();
  line("P " + name);
}
void Ctx::end(long idx, const std::string& digest) { line("A " + std::to_string(idx) + " " + digest); }
void Ctx::violation(const std::string& sig, const std::string& detail) { line("V " + sig + "\t" + detail); }
void Ctx::count(const std::string& name, long n) { line("C " + name + " " + std::to_string(n)); }
void Ctx::obs(const std::string& name, const std::string& digest) { line("O " + name + " " + digest); }
void Ctx::fp(const std::string& token) { line("F " + token); }
void Ctx::nontrivial() { line("N"); }

uint64_t ChildOutcome::hash() const
{
  uint64_t h = hstr(cls);
  for (auto& l : lines) h = hstr(l, h * 31 + 7);
  h = hstr(sanKind, h);
  h = hstr(sanFrame, h);
  return h;
}

static void parseSanitizer(ChildOutcome& co)
{
  const std::string& t = co.stderrText;
  size_t p = t.find("ERROR: AddressSanitizer: ");
  if (p != std::string::npos)
  {
    size_t q = p + strlen("ERROR: AddressSanitizer: ");
    size_t e = t.find_first_of(" \n", q);
    co.sanKind = t.substr(q, e - q);
    if (co.sanKind == "attempting") co.sanKind = "bad-free";
    if (co.sanKind == "requested") co.sanKind = "allocation-size-too-big";
    // one out-of-bounds access shows up as heap/stack/global overflow or as SEGV depending on where it lands
    if (co.sanKind == "SEGV" || co.sanKind == "heap-buffer-overflow" || co.sanKind == "stack-buffer-overflow" ||
        co.sanKind == "global-buffer-overflow" || co.sanKind == "unknown-crash" || co.sanKind == "stack-overflow" ||
        co.sanKind == "dynamic-stack-buffer-overflow" || co.sanKind == "container-overflow")
      co.sanKind = "bad-access";
  }
  else if ((p = t.find("runtime error: ")) != std::string::npos)
  {
    size_t q = p + strlen("runtime error: ");
    size_t e = t.find('\n', q);
    std::string msg = t.substr(q, e == std::string::npos ? std::string::npos : e - q);
    // keep the message class without numbers and addresses
    {
      std::string m2;
      for (size_t i = 0; i < msg.size(); i++)
      {
        if (msg[i] == '0' && i + 1 < msg.size() && msg[i + 1] == 'x')
        {
          size_t j = i + 2;
          while (j < msg.size() && isxdigit((unsigned char)msg[j])) j++;
          m2 += "ADDR";
          i = j - 1;
        }
        else m2 += msg[i];
      }
      msg = m2;
    }
    std::string k;
    for (char c : msg)
    {
      if (isdigit((unsigned char)c)) { if (k.empty() || k.back() != '#') k += '#'; }
      else if (c == ' ') k += '_';
      else k += c;
    }
    if (k.size() > 60) k.resize(60);
    if (msg.find("null pointer") != std::string::npos) k = "null-pointer-use";
    co.sanKind = "ubsan:" + k;
  }
  else if (t.find("AddressSanitizer") != std::string::npos || t.find("Sanitizer") != std::string::npos)
    co.sanKind = "sanitizer-other";
  // top frame inside /repo/
  size_t pos = 0;
  while ((pos = t.find(" in ", pos)) != std::string::npos)
  {
    size_t le = t.find('\n', pos);
    std::string ln = t.substr(pos + 4, le == std::string::npos ? std::string::npos : le - pos - 4);
    pos += 4;
    size_t rp = ln.find("/repo/");
    if (rp == std::string::npos) continue;
    // function name = up to " /repo" ; strip arguments
    std::string fn = ln.substr(0, rp);
    while (!fn.empty() && fn.back() == ' ') fn.pop_back();
    size_t par = fn.find('(');
    if (par != std::string::npos) fn = fn.substr(0, par);
    // strip template args
    std::string f2;
    int depth = 0;
    for (char c : fn)
    {
      if (c == '<') depth++;
      else if (c == '>') depth--;
      else if (depth == 0) f2 += c;
    }
    size_t sp = f2.rfind(' ');
    if (sp != std::string::npos) f2 = f2.substr(sp + 1);
    if (ln.find("/repo/include/Basic/VectorT.hpp") != std::string::npos ||
        ln.find("/repo/include/Basic/VectorNumT.hpp") != std::string::npos)
      continue; // skip the generic container frame, want the caller
    co.sanFrame = f2;
    break;
  }
}

ChildOutcome runChild(const std::function<void(Ctx&)>& fn, int timeoutSec)
{
  ChildOutcome co;
  // the per-op CPU budget (armed by Ctx::begin in the child) is the hang detector; the parent's wall-clock
  // watchdog on the silence of the event pipe only catches a child blocked without burning CPU
  timeoutSec *= 4;
  int pe[2], ps[2];
  if (pipe(pe) != 0 || pipe(ps) != 0) { co.cls = "machinery"; return co; }
  fflush(stdout);
  fflush(stderr);
  pid_t pid = fork();
  if (pid == 0)
  {
    close(pe[0]);
    close(ps[0]);
    dup2(ps[1], 2);
    int dn = open("/dev/null", O_WRONLY);
    if (dn >= 0) dup2(dn, 1);
    Ctx c;
    c.fd = pe[1];
    g_eventFd = pe[1];
    // a runaway child must not take the machine down
    struct rlimit rl;
    rl.rlim_cur = rl.rlim_max = (rlim_t)(20 * timeoutSec + 60);
    setrlimit(RLIMIT_CPU, &rl);
    try
    {
      fn(c);
      c.line("D");
    }
    catch (const std::exception& e)
    {
      c.line(std::string("Z harness-uncaught ") + e.what());
      _exit(79);
    }
    catch (...)
    {
      c.line("Z harness-uncaught unknown");
      _exit(79);
    }
    _exit(0);
  }
  close(pe[1]);
  close(ps[1]);
  std::string ebuf, sbuf;
  struct pollfd pf[2] = {{pe[0], POLLIN, 0}, {ps[0], POLLIN, 0}};
  bool open0 = true, open1 = true, timedOut = false;
  struct timeval t0;
  gettimeofday(&t0, nullptr);
  char buf[65536];
  while (open0 || open1)
  {
    struct timeval t1;
    gettimeofday(&t1, nullptr);
    double el = (t1.tv_sec - t0.tv_sec) + 1e-6 * (t1.tv_usec - t0.tv_usec);
    if (el > timeoutSec) { timedOut = true; kill(pid, SIGKILL); break; }
    pf[0].fd = open0 ? pe[0] : -1;
    pf[1].fd = open1 ? ps[0] : -1;
    int r = poll(pf, 2, 1000);
    if (r < 0) { if (errno == EINTR) continue; break; }
    for (int k = 0; k < 2; k++)
    {
      if (pf[k].fd < 0) continue;
      if (pf[k].revents & (POLLIN | POLLHUP | POLLERR))
      {
        ssize_t n = read(pf[k].fd, buf, sizeof buf);
        if (n > 0)
        {
          std::string& b = (k == 0 ? ebuf : sbuf);
          if (b.size() < (64u << 20)) b.append(buf, (size_t)n);
          if (k == 0) gettimeofday(&t0, nullptr); // watchdog measures silence, not total duration
        }
        else if (n == 0 || (n < 0 && errno != EINTR && errno != EAGAIN))
        {
          if (k == 0) open0 = false; else open1 = false;
        }
      }
    }
  }
  close(pe[0]);
  close(ps[0]);
  int st = 0;
  while (waitpid(pid, &st, 0) < 0 && errno == EINTR) {}
  co.status = st;
  {
    std::istringstream in(ebuf);
    std::string l;
    while (std::getline(in, l)) co.lines.push_back(l);
    if (!ebuf.empty() && ebuf.back() != '\n' && !co.lines.empty()) co.lines.pop_back(); // torn last line
  }
  co.stderrText = sbuf;
  bool done = false, budgetMem = false, budgetSteps = false;
  for (auto& l : co.lines)
  {
    if (l == "D") done = true;
    if (l.rfind("B ", 0) == 0)
    {
      std::istringstream ls(l.substr(2));
      ls >> co.lastOp >> co.lastKind;
    }
    if (l.rfind("X budget-mem", 0) == 0) budgetMem = true;
    if (l.rfind("X budget-steps", 0) == 0) budgetSteps = true;
  }
  (void)budgetMem;
  (void)budgetSteps;
  if (timedOut) co.cls = "timeout";
  else if (WIFEXITED(st))
  {
    int ec = WEXITSTATUS(st);
    if (ec == 0 && done) co.cls = "ok";
    else if (ec == 77) { co.cls = "sanitizer"; parseSanitizer(co); }
    else if (ec == 78) co.cls = "exit-called";
    else if (ec == 79) co.cls = "harness-uncaught";
    else if (ec == 81) co.cls = "timeout"; // CPU budget of one op exhausted
    else co.cls = "exit-" + std::to_string(ec);
  }
  else if (WIFSIGNALED(st))
  {
    int sg = WTERMSIG(st);
    if (sg == SIGXCPU) co.cls = "timeout";
    else co.cls = "signal-" + std::to_string(sg);
    if (sbuf.find("Sanitizer") != std::string::npos) { parseSanitizer(co); }
  }
  else
    co.cls = "unknown";
  return co;
}

void foldChild(const ChildOutcome& co, RunResult& rr, std::map<std::string, std::string>* obs)
{
  rr.children++;
  rr.outcome = co.cls;
  rr.counters["outcome." + co.cls]++;
  uint64_t fpv = rr.fingerprint;
  for (auto& l : co.lines)
  {
    if (l.size() < 1) continue;
    switch (l[0])
    {
      case 'V':
      {
        Violation v;
        size_t tab = l.find('\t');
        v.sig = l.substr(2, tab == std::string::npos ? std::string::npos : tab - 2);
        if (tab != std::string::npos) v.detail = l.substr(tab + 1);
        rr.viol.push_back(v);
        break;
      }
      case 'C':
      {
        std::istringstream ls(l.substr(2));
        std::string n;
        long k = 0;
        ls >> n >> k;
        rr.counters[n] += k;
        break;
      }
      case 'B':
      {
        rr.nops++;
        std::istringstream ls(l.substr(2));
        long idx;
        std::string kind;
        ls >> idx >> kind;
        fpv = hstr(kind, fpv * 1099511628211ULL + 3);
        rr.counters["op." + kind]++;
        break;
      }
      case 'F': fpv = hstr(l, fpv * 1099511628211ULL + 5); break;
      case 'N': rr.nontrivial = true; break;
      case 'O':
        if (obs)
        {
          std::istringstream ls(l.substr(2));
          std::string n, d;
          ls >> n >> d;
          (*obs)[n] = d;
        }
        break;
      default: break;
    }
  }
  rr.fingerprint = hstr(co.cls, fpv);
  rr.loghash = rr.loghash * 0x9e3779b97f4a7c15ULL + co.hash();
}

bool deathViolation(const std::string& prop, const ChildOutcome& co, Violation& v)
{
  if (co.cls == "ok") return false;
  std::string site;
  if (co.cls == "sanitizer" || !co.sanKind.empty())
    site = co.sanKind + "@" + (co.sanFrame.empty() ? "?" : co.sanFrame);
  else
    site = "op=" + co.lastKind;
  std::string cls = co.cls;
  if (!co.sanKind.empty()) cls = "sanitizer";
  v.sig = prop + "|" + cls + "|" + site;
  v.detail = "child ended as " + co.cls + " during op " + std::to_string(co.lastOp) + " (" + co.lastKind + ")";
  if (!co.stderrText.empty())
  {
    std::string s = co.stderrText.substr(0, 600);
    for (auto& c : s) if (c == '\n' || c == '\t') c = ' ';
    v.detail += " :: " + s;
  }
  for (auto& l : co.lines)
    if (l.rfind("Z ", 0) == 0) v.detail += " :: " + l;
  return true;
}

RunResult Workload::runPlan(const Plan& p)
{
  RunResult rr;
  ChildOutcome co = runChild([&](Ctx& c) { execute(p, c); });
  foldChild(co, rr);
  Violation v;
  if (deathViolation(prop(), co, v)) rr.viol.push_back(v);
  return rr;
}

bool hasSig(const RunResult& r, const std::string& sig)
{
  for (auto& v : r.viol) if (v.sig == sig) return true;
  return false;
}

// ================================================================ shrinker
Plan shrinkPlan(Workload& w, const Plan& p0, const std::string& sig, int budget, int* usedOut)
{
  Plan best = p0;
  int used = 0;
  auto stillFails = [&](const Plan& cand) {
    if (used >= budget) return false;
    used++;
    RunResult r = w.runPlan(cand);
    return hasSig(r, sig);
  };
  // 1. ddmin over ops
  size_t chunk = best.ops.size() / 2;
  while (chunk >= 1 && used < budget)
  {
    bool any = false;
    for (size_t start = 0; start < best.ops.size() && used < budget;)
    {
      if (best.ops.size() <= 1) break;
      Plan cand = best;
      size_t e = std::min(best.ops.size(), start + chunk);
      cand.ops.erase(cand.ops.begin() + start, cand.ops.begin() + e);
      if (!cand.ops.empty() && stillFails(cand)) { best = cand; any = true; }
      else start += chunk;
    }
    if (!any) chunk /= 2;
    else chunk = std::min(chunk, std::max<size_t>(1, best.ops.size() / 2));
    if (best.ops.size() <= 1) break;
  }
  // 2. drop faults
  for (size_t k = 0; k < best.ops.size() && used < budget; k++)
    for (size_t f = 0; f < best.ops[k].f.size() && used < budget;)
    {
      Plan cand = best;
      cand.ops[k].f.erase(cand.ops[k].f.begin() + f);
      if (stillFails(cand)) best = cand;
      else f++;
    }
  // 3. simpler op kinds (workload hint)
  for (size_t k = 0; k < best.ops.size() && used < budget; k++)
    for (auto& alt : w.simpler(best.ops[k]))
    {
      Plan cand = best;
      cand.ops[k] = alt;
      if (stillFails(cand)) { best = cand; break; }
    }
  // 4. shrink integer arguments toward 0, trailing args dropped
  for (size_t k = 0; k < best.ops.size() && used < budget; k++)
  {
    for (size_t a = 0; a < best.ops[k].i.size() && used < budget; a++)
    {
      long v = best.ops[k].i[a];
      for (long t : {0L, 1L, v / 2})
      {
        if (t == v || std::labs(t) >= std::labs(v)) continue;
        Plan cand = best;
        cand.ops[k].i[a] = t;
        if (stillFails(cand)) { best = cand; break; }
      }
    }
    for (size_t a = 0; a < best.ops[k].d.size() && used < budget; a++)
    {
      double v = best.ops[k].d[a];
      for (double t : {0.0, 1.0})
      {
        if (t == v) continue;
        Plan cand = best;
        cand.ops[k].d[a] = t;
        if (stillFails(cand)) { best = cand; break; }
      }
    }
  }
  // 5. knobs toward simplest ("0")
  for (auto& kv : p0.knobs)
  {
    if (used >= budget) break;
    if (kv.second == "0") continue;
    if (kv.first.rfind("keep.", 0) == 0) continue;
    Plan cand = best;
    cand.knobs[kv.first] = "0";
    if (stillFails(cand)) best = cand;
  }
  if (usedOut) *usedOut = used;
  return best;
}

// ================================================================ main
static std::string jesc(const std::string& s)
{
  std::string o;
  for (unsigned char c : s)
  {
    if (c == '"') o += "\\\"";
    else if (c == '\\') o += "\\\\";
    else if (c == '\n') o += "\\n";
    else if (c == '\t') o += "\\t";
    else if (c < 32) { char b[8]; snprintf(b, sizeof b, "\\u%04x", c); o += b; }
    else o += (char)c;
  }
  return o;
}
static std::string readFile(const std::string& path)
{
  std::ifstream f(path);
  std::stringstream ss;
  ss << f.rdbuf();
  return ss.str();
}
static void writeFile(const std::string& path, const std::string& text)
{
  std::ofstream f(path);
  f << text;
}
static std::string sigFile(const std::string& sig)
{
  std::string o;
  for (char c : sig) o += (isalnum((unsigned char)c) || c == '.' || c == '-' || c == '_') ? c : '_';
  if (o.size() > 120) o = o.substr(0, 100) + "_" + Digest().hex().substr(0, 0) + std::to_string(hstr(sig) % 100000);
  return o;
}

static void printResult(const RunResult& r)
{
  printf("{\"outcome\":\"%s\",\"loghash\":\"%016lx\",\"nops\":%ld,\"children\":%ld,\"violations\":[",
         r.outcome.c_str(), (unsigned long)r.loghash, r.nops, r.children);
  for (size_t k = 0; k < r.viol.size(); k++)
    printf("%s{\"sig\":\"%s\",\"detail\":\"%s\"}", k ? "," : "", jesc(r.viol[k].sig).c_str(),
           jesc(r.viol[k].detail.substr(0, 1500)).c_str());
  printf("]}\n");
}

int simkitMain(int argc, char** argv)
{
  if (argc < 2)
  {
    fprintf(stderr, "usage: simkit gen|run|replay|shrink|selftest ...\n");
    return 2;
  }
  setvbuf(stdout, nullptr, _IOLBF, 0);
  std::string cmd = argv[1];
  installSinks();
  Tier tier;
  const char* te = getenv("VERIF_TIER");
  if (te && std::string(te) == "thorough") tier.thorough = true;

  if (cmd == "gen" && argc >= 5)
  {
    Workload* w = makeWorkload(argv[2]);
    if (!w) return 2;
    Plan p = w->generate(strtoull(argv[3], nullptr, 10), atol(argv[4]), tier);
    fputs(p.toText().c_str(), stdout);
    return 0;
  }
  if (cmd == "describe" && argc >= 3)
  {
    Workload* w = makeWorkload(argv[2]);
    if (!w) return 2;
    auto arr = [](const std::vector<std::string>& v) {
      std::string o = "[";
      for (size_t k = 0; k < v.size(); k++) o += std::string(k ? "," : "") + "\"" + jesc(v[k]) + "\"";
      return o + "]";
    };
    printf("{\"rule\":\"%s\",\"real\":%s,\"stub\":%s,\"assumptions\":%s,\"exhaustive_note\":\"%s\"}\n", jesc(w->rule()).c_str(),
           arr(w->realComponents()).c_str(), arr(w->stubComponents()).c_str(), arr(w->assumptions()).c_str(),
           jesc(w->exhaustiveNote()).c_str());
    return 0;
  }
  if (cmd == "replay" && argc >= 3)
  {
    Plan p;
    std::string err;
    if (!Plan::parse(readFile(argv[2]), p, &err)) { fprintf(stderr, "bad plan: %s\n", err.c_str()); return 2; }
    Workload* w = makeWorkload(p.prop);
    if (!w) return 2;
    RunResult r = w->runPlan(p);
    printResult(r);
    for (auto& v : r.viol) printf("REPLAY-VIOLATION sig=%s :: %s\n", v.sig.c_str(), v.detail.substr(0, 800).c_str());
    return r.viol.empty() ? 0 : 1;
  }
  if (cmd == "shrink" && argc >= 5)
  {
    Plan p;
    if (!Plan::parse(readFile(argv[2]), p)) return 2;
    Workload* w = makeWorkload(p.prop);
    if (!w) return 2;
    int used = 0;
    Plan q = shrinkPlan(*w, p, argv[3], 300, &used);
    writeFile(argv[4], q.toText());
    printf("shrunk ops %zu -> %zu faults %zu -> %zu in %d runs\n", p.ops.size(), q.ops.size(), p.nfaults(), q.nfaults(), used);
    return 0;
  }
  if ((cmd == "run" || cmd == "selftest") && argc >= 8)
  {
    // run <prop> <seed> <first> <count> <stride> <outdir>
    std::string prop = argv[2];
    uint64_t seed = strtoull(argv[3], nullptr, 10);
    long first = atol(argv[4]), count = atol(argv[5]), stride = atol(argv[6]);
    std::string outdir = argv[7];
    bool selftest = (cmd == "selftest");
    Workload* w = makeWorkload(prop);
    if (!w) { fprintf(stderr, "unknown property %s\n", prop.c_str()); return 2; }
    mkdir(outdir.c_str(), 0777);
    std::map<std::string, long> counters;
    std::set<uint64_t> fps;
    std::map<std::string, int> sigSeen;
    // signatures of recorded findings: counted, not minimised again (each has a committed canary replay file
    // that the driver replays on every run)
    std::set<std::string> knownSigs;
    if (const char* kf = getenv("SIMKIT_KNOWN_SIGS"))
    {
      std::ifstream f(kf);
      std::string l;
      while (std::getline(f, l)) if (!l.empty()) knownSigs.insert(l);
    }
    std::vector<std::string> samples;
    long evaluations = 0, nops = 0, children = 0, nondet = 0, nviolRuns = 0;
    int shrunk = 0;
    double deadline = 0;
    const char* dl = getenv("SIMKIT_DEADLINE_S");
    struct timeval t0;
    gettimeofday(&t0, nullptr);
    if (dl) deadline = atof(dl);
    for (long k = 0; k < count; k++)
    {
      if (deadline > 0)
      {
        struct timeval t1;
        gettimeofday(&t1, nullptr);
        if ((t1.tv_sec - t0.tv_sec) > deadline) { counters["stopped.deadline"]++; break; }
      }
      long run = first + k * stride;
      Plan p = w->generate(seed, run, tier);
      RunResult r = w->runPlan(p);
      evaluations++;
      nops += r.nops;
      children += r.children;
      for (auto& c : r.counters) counters[c.first] += c.second;
      if (r.nontrivial) fps.insert(r.fingerprint);
      if ((samples.size() < 3 && p.ops.size() <= 12) || (samples.size() < 4 && p.nfaults() > 0 && r.nontrivial && p.ops.size() <= 12)) samples.push_back(p.toText());
      if (selftest)
      {
        RunResult r2 = w->runPlan(p);
        printf("H %ld %016lx %016lx\n", run, (unsigned long)r.loghash, (unsigned long)r2.loghash);
        for (auto& v : r.viol) printf("HV %ld %s :: %.300s\n", run, v.sig.c_str(), v.detail.c_str());
        if (r2.loghash != r.loghash) { nondet++; printf("NONDET run=%ld\n", run); writeFile(outdir + "/nondet_" + std::to_string(run) + ".plan", p.toText()); }
        continue;
      }
      if (!r.viol.empty() && !knownSigs.empty())
      {
        std::vector<Violation> fresh;
        for (auto& v : r.viol)
        {
          if (knownSigs.count(v.sig)) sigSeen[v.sig]++;
          else fresh.push_back(v);
        }
        if (fresh.size() != r.viol.size()) counters["runs.with-recorded-finding"]++;
        if (fresh.empty()) continue;
        // an unrecorded signature next to recorded ones: handled on the full result below
      }
      if (r.viol.empty()) continue;
      nviolRuns++;
      // gate 1: same plan again -> same signatures and same log hash
      RunResult r2 = w->runPlan(p);
      bool same = (r2.loghash == r.loghash) && r2.viol.size() == r.viol.size();
      for (size_t q = 0; same && q < r.viol.size(); q++) same = (r.viol[q].sig == r2.viol[q].sig);
      if (!same)
      {
        // wall-clock is a detector of last resort: a time-out that does not repeat (loaded machine) is dropped,
        // everything else must repeat exactly
        bool onlyTimeouts = true;
        std::vector<Violation> kept;
        for (auto& v : r.viol)
        {
          if (hasSig(r2, v.sig)) { kept.push_back(v); continue; }
          if (v.sig.find("|timeout|") == std::string::npos) onlyTimeouts = false;
        }
        for (auto& v : r2.viol) if (!hasSig(r, v.sig) && v.sig.find("|timeout|") == std::string::npos) onlyTimeouts = false;
        if (onlyTimeouts)
        {
          counters["discarded.timeout-not-repeated"]++;
          r.viol = kept;
          same = true;
          if (r.viol.empty()) { nviolRuns--; continue; }
        }
      }
      if (!same)
      {
        nondet++;
        std::string f = outdir + "/nondet_" + std::to_string(run) + ".plan";
        writeFile(f, p.toText());
        printf("NONDET run=%ld file=%s sigs1=%zu sigs2=%zu\n", run, f.c_str(), r.viol.size(), r2.viol.size());
        continue;
      }
      std::set<std::string> done;
      for (auto& v : r.viol)
      {
        if (done.count(v.sig)) continue;
        done.insert(v.sig);
        if (knownSigs.count(v.sig)) continue;
        int& seen = sigSeen[v.sig];
        seen++;
        if (seen > 1) continue; // one minimised witness per signature per worker
        Plan base = p;
        if (!v.replay.empty())
        {
          Plan::parse(v.replay, base);
          // a derived (narrowed) plan must reproduce alone; otherwise the whole plan is the replay file
          RunResult rb = w->runPlan(base);
          if (!hasSig(rb, v.sig)) { base = p; counters["gate.derived-plan-not-reproducing"]++; }
        }
        Plan q = base;
        int used = 0;
        if (shrunk < 12 && v.sig.find("|timeout|") == std::string::npos) { q = shrinkPlan(*w, base, v.sig, 250, &used); shrunk++; }
        std::string f = outdir + "/" + sigFile(v.sig) + ".r" + std::to_string(run) + ".plan";
        writeFile(f, "# sig: " + v.sig + "\n# detail: " + v.detail.substr(0, 1000) + "\n" + q.toText());
        printf("VIOL {\"run\":%ld,\"sig\":\"%s\",\"file\":\"%s\",\"ops\":%zu,\"faults\":%zu,\"shrink_runs\":%d,\"detail\":\"%s\"}\n",
               run, jesc(v.sig).c_str(), jesc(f).c_str(), q.ops.size(), q.nfaults(), used, jesc(v.detail.substr(0, 1200)).c_str());
      }
    }
    // summary
    printf("SUMMARY {\"evaluations\":%ld,\"nops\":%ld,\"children\":%ld,\"nondet\":%ld,\"violation_runs\":%ld,\"counters\":{",
           evaluations, nops, children, nondet, nviolRuns);
    bool firstc = true;
    for (auto& c : counters) { printf("%s\"%s\":%ld", firstc ? "" : ",", jesc(c.first).c_str(), c.second); firstc = false; }
    printf("},\"sigcounts\":{");
    firstc = true;
    for (auto& c : sigSeen) { printf("%s\"%s\":%d", firstc ? "" : ",", jesc(c.first).c_str(), c.second); firstc = false; }
    printf("},\"samples\":[");
    for (size_t k = 0; k < samples.size(); k++) printf("%s\"%s\"", k ? "," : "", jesc(samples[k]).c_str());
    printf("],\"fps\":[");
    firstc = true;
    for (auto f : fps) { printf("%s\"%lx\"", firstc ? "" : ",", (unsigned long)f); firstc = false; }
    printf("]}\n");
    return nondet ? 2 : 0;
  }
  fprintf(stderr, "bad arguments\n");
  return 2;
}

} // namespace sk
