// simkit core: seeded PRNG, plans (replay files), event log, child runner,
// shrinker. No gstlearn dependency here except the message sinks.
#pragma once
#include <cstdint>
#include <cstdio>
#include <cstring>
#include <cmath>
#include <functional>
#include <map>
#include <set>
#include <sstream>
#include <string>
#include <vector>

namespace sk {

// ---------------------------------------------------------------- hashing
inline uint64_t splitmix64(uint64_t& x)
{
  uint64_t z = (x += 0x9e3779b97f4a7c15ULL);
  z = (z ^ (z >> 30)) * 0xbf58476d1ce4e5b9ULL;
  z = (z ^ (z >> 27)) * 0x94d049bb133111ebULL;
  return z ^ (z >> 31);
}
inline uint64_t fnv1a(const void* p, size_t n, uint64_t h = 1469598103934665603ULL)
{
  const unsigned char* c = (const unsigned char*)p;
  for (size_t i = 0; i < n; i++) { h ^= c[i]; h *= 1099511628211ULL; }
  return h;
}
inline uint64_t hstr(const std::string& s, uint64_t h = 1469598103934665603ULL)
{
  return fnv1a(s.data(), s.size(), h);
}

// Canonical digest builder (bit exact; NaN canonicalised)
struct Digest
{
  uint64_t h = 1469598103934665603ULL;
  void u64(uint64_t v) { h = fnv1a(&v, 8, h); }
  void i(long v) { u64((uint64_t)v); }
  void d(double v)
  {
    uint64_t b;
    if (std::isnan(v)) b = 0x7ff8000000000000ULL;
    else memcpy(&b, &v, 8);
    u64(b);
  }
  void s(const std::string& v) { i((long)v.size()); h = fnv1a(v.data(), v.size(), h); }
  template<class V> void vd(const V& v) { i((long)v.size()); for (auto x : v) d((double)x); }
  template<class V> void vi(const V& v) { i((long)v.size()); for (auto x : v) i((long)x); }
  std::string hex() const { char b[32]; snprintf(b, sizeof b, "%016lx", (unsigned long)h); return b; }
};

// ---------------------------------------------------------------- PRNG
struct Rng
{
  uint64_t s[4];
  Rng(uint64_t seed = 1) { reseed(seed); }
  void reseed(uint64_t seed) { for (auto& x : s) x = splitmix64(seed); }
  static uint64_t rotl(uint64_t x, int k) { return (x << k) | (x >> (64 - k)); }
  uint64_t next()
  {
    uint64_t r = rotl(s[1] * 5, 7) * 9, t = s[1] << 17;
    s[2] ^= s[0]; s[3] ^= s[1]; s[1] ^= s[2]; s[0] ^= s[3]; s[2] ^= t; s[3] = rotl(s[3], 45);
    return r;
  }
  long below(long n) { return n <= 0 ? 0 : (long)(next() % (uint64_t)n); }
  long range(long lo, long hi) { return lo + below(hi - lo + 1); } // inclusive
  double unit() { return (double)(next() >> 11) * (1.0 / 9007199254740992.0); }
  double uniform(double a, double b) { return a + (b - a) * unit(); }
  bool chance(double p) { return unit() < p; }
  template<class T> const T& pick(const std::vector<T>& v) { return v[below((long)v.size())]; }
  double gauss()
  {
    double u1 = unit(), u2 = unit();
    if (u1 < 1e-300) u1 = 1e-300;
    return std::sqrt(-2 * std::log(u1)) * std::cos(6.283185307179586 * u2);
  }
};
// one stream per (seed, property, run, purpose)
inline Rng stream(uint64_t seed, const std::string& prop, long run, const char* purpose)
{
  uint64_t x = seed * 0x9e3779b97f4a7c15ULL + hstr(prop);
  splitmix64(x);
  x ^= (uint64_t)run * 0xd1342543de82ef95ULL;
  splitmix64(x);
  x ^= hstr(purpose);
  return Rng(splitmix64(x));
}

// ---------------------------------------------------------------- plans
struct Fault { std::string site; long occ = 0; long mode = 0; };
struct Op
{
  std::string kind;
  std::vector<long> i;
  std::vector<double> d;
  std::vector<std::string> s;
  std::vector<Fault> f;
  long I(size_t k, long def = 0) const { return k < i.size() ? i[k] : def; }
  double D(size_t k, double def = 0) const { return k < d.size() ? d[k] : def; }
  std::string S(size_t k, const std::string& def = "") const { return k < s.size() ? s[k] : def; }
};
struct Plan
{
  std::string prop;
  uint64_t seed = 1;
  long run = 0;
  std::map<std::string, std::string> knobs;
  std::vector<Op> ops;
  long knob(const std::string& k, long def = 0) const
  {
    auto it = knobs.find(k);
    return it == knobs.end() ? def : atol(it->second.c_str());
  }
  std::string knobs_(const std::string& k, const std::string& def = "") const
  {
    auto it = knobs.find(k);
    return it == knobs.end() ? def : it->second;
  }
  void setKnob(const std::string& k, long v) { knobs[k] = std::to_string(v); }
  std::string toText() const;
  static bool parse(const std::string& text, Plan& out, std::string* err = nullptr);
  size_t nfaults() const { size_t n = 0; for (auto& o : ops) n += o.f.size(); return n; }
};
std::string escapeStr(const std::string& s);

// ---------------------------------------------------------------- results
struct Violation
{
  std::string sig;    // property|class|site  (stable, used for known findings and shrinking)
  std::string detail; // free text
  std::string replay; // optional derived plan text (if the workload narrowed the plan)
};
struct RunResult
{
  std::vector<Violation> viol;
  uint64_t loghash = 0;
  std::string outcome = "ok";      // last child's outcome class
  std::map<std::string, long> counters; // faults fired, probes, outcomes ...
  uint64_t fingerprint = 0;        // history fingerprint
  bool nontrivial = false;
  long nops = 0;
  long children = 0;
  std::string note;
};

// ---------------------------------------------------------------- child side
// Ctx is what workload executors use inside the child.
struct Ctx
{
  int fd = -1;
  long opIndex = -1;
  void line(const std::string& l);
  void begin(long idx, const std::string& kind);
  void phase(const std::string& name);
  void end(long idx, const std::string& digest);
  void violation(const std::string& sig, const std::string& detail);
  void count(const std::string& name, long n = 1);
  void obs(const std::string& name, const std::string& digest); // observed value (for sibling diff)
  void fp(const std::string& token);  // contributes to history fingerprint
  void nontrivial();
};

struct ChildOutcome
{
  std::string cls;              // ok, sanitizer, signal, exit-called, timeout, budget-mem, budget-steps
  int status = 0;
  std::vector<std::string> lines; // event lines in order
  std::string stderrText;
  std::string sanKind, sanFrame;  // parsed from sanitizer report
  long lastOp = -1;
  std::string lastKind;
  uint64_t hash() const;
};

// fork a child, run fn(ctx) in it, collect event log; watchdog in seconds
ChildOutcome runChild(const std::function<void(Ctx&)>& fn, int timeoutSec = 30);
// fold a child's lines into a RunResult (violations, counters, fingerprint, obs map)
void foldChild(const ChildOutcome& co, RunResult& rr, std::map<std::string, std::string>* obs = nullptr);
// standard violation for a dead child (sanitizer / signal / timeout ...) ; empty if ok
bool deathViolation(const std::string& prop, const ChildOutcome& co, Violation& v);

// ---------------------------------------------------------------- workloads
struct Tier { bool thorough = false; };
struct Workload
{
  virtual ~Workload() {}
  virtual std::string prop() const = 0;
  virtual Plan generate(uint64_t seed, long run, const Tier& t) = 0;
  // parent side: default forks one child calling execute()
  virtual RunResult runPlan(const Plan& p);
  // child side
  virtual void execute(const Plan& p, Ctx& c) = 0;
  // shrink hint: candidate simpler versions of an op (optional)
  virtual std::vector<Op> simpler(const Op&) { return {}; }
  virtual long defaultRuns(const Tier& t) const = 0;
  virtual std::string rule() const = 0;
  virtual std::vector<std::string> realComponents() const { return {}; }
  virtual std::vector<std::string> stubComponents() const { return {}; }
  virtual std::vector<std::string> assumptions() const { return {}; }
  virtual std::string exhaustiveNote() const { return ""; }
};
Workload* makeWorkload(const std::string& prop); // defined in each harness main

// signature class used by the shrinker to stay on the same violation
bool hasSig(const RunResult& r, const std::string& sig);
Plan shrinkPlan(Workload& w, const Plan& p, const std::string& sig, int budget, int* used);

int simkitMain(int argc, char** argv);

// fault plumbing shared by workloads (hook callback in child)
struct FaultState
{
  std::map<std::string, long> seen;            // site -> occurrences so far
  std::vector<std::pair<std::string, long>> trace; // ordered (site, occ)
  std::vector<Fault> armed;
  std::set<std::string> enabledSites;          // empty => all
  bool traceOn = false;
  long fired = 0;
  std::string lastFired;
  void reset() { seen.clear(); trace.clear(); armed.clear(); fired = 0; lastFired.clear(); }
};
extern FaultState g_faults;
extern "C" int simkit_fault_cb(const char* site);

// CPU seconds one op may burn before it is declared a hang (workloads with legitimately heavy ops raise it)
extern int g_cpuBudgetS;

// sinks
void installSinks();
extern long g_msgCount, g_errCount;
extern bool g_exitCalled;

// memory budget (operator new replacement lives in core.cpp)
void memBudgetStart(size_t perAlloc, size_t total);
void memBudgetStop();
bool memBudgetExceeded();
bool memBudgetInherent(); // a refused request came from a cost inherent to the kind of object (see core.cpp)
size_t memBudgetPeak();

} // namespace sk
