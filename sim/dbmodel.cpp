// C07 — Db stays a consistent table under any sequence of edits.
// Workload "dbmodel": op histories on real Db/DbGrid objects vs a reference table model.
#include "gl.hpp"
#include <regex>
#include <algorithm>

#include "Basic/Limits.hpp"
#include "Basic/String.hpp"
#include "Enum/ELoadBy.hpp"
#include "Enum/EOperator.hpp"

using namespace sk;

namespace {

const char* BASE_NAMES[] = {"alpha", "beta", "gam", "del", "eps", "zeta", "eta", "theta", "iota", "kap"};
const int NBASE = 10;

int NE() { return Db::getNEloc(); }

struct MCol
{
  int uid;
  std::string name;
  std::vector<double> v;
};
struct MDb
{
  bool grid = false;
  int nech = 0;
  int uidMax = 0;
  std::vector<MCol> cols;
  std::vector<std::vector<int>> roles; // per ELoc value: ordered uids
  // adoption flags set by an op whose outcome the documentation does not fix
  bool adoptRoles = false;
  std::set<int> adoptNames;  // uids whose name is adopted from the implementation
  std::set<int> adoptValues; // uids whose values are adopted
  bool adoptAll = false;
  bool beyondEnd = false;    // an op placed a role beyond the end of its list (documentation silent on the result)

  MDb() { roles.resize(NE()); }
  int colOfUid(int uid) const
  {
    for (size_t k = 0; k < cols.size(); k++) if (cols[k].uid == uid) return (int)k;
    return -1;
  }
  bool uidInRange(int uid) const { return uid >= 0 && uid < uidMax; }
  int colOfName(const std::string& n) const
  {
    for (size_t k = 0; k < cols.size(); k++) if (cols[k].name == n) return (int)k;
    return -1;
  }
  int roleCount(int t) const { return (t < 0 || t >= (int)roles.size()) ? 0 : (int)roles[t].size(); }
  void removeFromRoles(int uid)
  {
    for (auto& l : roles)
      for (size_t k = 0; k < l.size();)
      {
        if (l[k] == uid) l.erase(l.begin() + k);
        else k++;
      }
  }
  // documented semantics of setLocatorByUID
  void setLoc(int uid, int type, int rank, bool clean)
  {
    if (!uidInRange(uid)) return;
    if (colOfUid(uid) < 0) return; // a deleted column designates nothing: no effect expected
    if (clean && type >= 0) roles[type].clear();
    if (rank < 0) rank = roleCount(type);
    removeFromRoles(uid);
    if (type < 0) return;
    auto& l = roles[type];
    if (rank > (int)l.size()) { adoptRoles = true; beyondEnd = true; return; } // placement beyond the end: documentation silent
    if (rank == (int)l.size()) l.push_back(uid);
    else l[rank] = uid;
  }
  // selection column (uid of SEL rank 0) or -1
  int selCol() const
  {
    int t = ELoc::SEL.getValue();
    if (roles[t].empty()) return -1;
    return colOfUid(roles[t][0]);
  }
  bool active(int iech) const
  {
    int c = selCol();
    if (c < 0) return true;
    double v = cols[c].v[iech];
    if (isUndef(v)) return false;
    return v != 0.;
  }
  int nactive() const
  {
    int n = 0;
    for (int i = 0; i < nech; i++) n += active(i);
    return n;
  }
  void deleteUid(int uid)
  {
    int c = colOfUid(uid);
    if (c < 0) return;
    cols.erase(cols.begin() + c);
    removeFromRoles(uid);
  }
  bool nameUsed(const std::string& n, int exceptCol = -1) const
  {
    for (size_t k = 0; k < cols.size(); k++) if ((int)k != exceptCol && cols[k].name == n) return true;
    return false;
  }
};

// a name is a pattern: ambiguous when it full-matches another column name too
bool ambiguous(const MDb& m, const std::string& name)
{
  if (name.find_first_of(".*+?[]()|^$\\{}") == std::string::npos) return false;
  int n = 0;
  try
  {
    std::regex re(name);
    for (auto& c : m.cols) if (std::regex_match(c.name, re)) n++;
  }
  catch (...) { return true; }
  return n != 1;
}

struct Slot
{
  Db* db = nullptr;
  MDb m;
};

// ---------------------------------------------------------------- adoption and comparison
void adoptFrom(const Db* db, MDb& m)
{
  m = MDb();
  m.grid = db->isGrid();
  m.nech = db->getSampleNumber();
  m.uidMax = db->getUIDMaxNumber();
  int nc = db->getColumnNumber();
  VectorString names = db->getAllNames();
  for (int ic = 0; ic < nc; ic++)
  {
    MCol c;
    c.uid = db->getUIDByColIdx(ic);
    c.name = ic < (int)names.size() ? names[ic] : "";
    VectorDouble v = db->getColumnByColIdx(ic, false, false);
    c.v.assign(v.begin(), v.end());
    m.cols.push_back(c);
  }
  for (int t = 0; t < NE(); t++)
  {
    int n = db->getLocatorNumber(ELoc::fromValue(t));
    for (int r = 0; r < n; r++) m.roles[t].push_back(db->getUIDByLocator(ELoc::fromValue(t), r));
  }
}

struct Fail
{
  bool bad = false;
  std::string cls, obs, detail;
  void set(const std::string& c, const std::string& o, const std::string& d)
  {
    if (bad) return;
    bad = true; cls = c; obs = o; detail = d;
  }
};

std::string vstr(const std::vector<int>& v)
{
  std::string s = "[";
  for (size_t k = 0; k < v.size(); k++) s += (k ? "," : "") + std::to_string(v[k]);
  return s + "]";
}

// compare all observers of the real Db with the model; first discrepancy recorded
void compare(const Db* db, MDb& m, Fail& f)
{
  int nc = db->getColumnNumber();
  // ---- adoption of what the documentation leaves open
  if (m.adoptAll) { adoptFrom(db, m); }
  if (m.adoptRoles)
  {
    for (int t = 0; t < NE(); t++)
    {
      m.roles[t].clear();
      int n = db->getLocatorNumber(ELoc::fromValue(t));
      for (int r = 0; r < n; r++) m.roles[t].push_back(db->getUIDByLocator(ELoc::fromValue(t), r));
    }
  }
  for (int uid : m.adoptNames)
  {
    int c = m.colOfUid(uid);
    if (c >= 0 && c < nc) m.cols[c].name = db->getNameByColIdx(c);
  }
  for (int uid : m.adoptValues)
  {
    int c = m.colOfUid(uid);
    if (c >= 0 && c < nc)
    {
      VectorDouble v = db->getColumnByColIdx(c, false, false);
      m.cols[c].v.assign(v.begin(), v.end());
    }
  }
  m.adoptAll = m.adoptRoles = false;
  m.adoptNames.clear();
  m.adoptValues.clear();

  // ---- counts
  if (nc != (int)m.cols.size())
    return f.set("mismatch", "getColumnNumber", "impl " + std::to_string(nc) + " model " + std::to_string(m.cols.size()));
  if (db->getSampleNumber() != m.nech)
    return f.set("mismatch", "getSampleNumber", "impl " + std::to_string(db->getSampleNumber()) + " model " + std::to_string(m.nech));
  if ((long)db->getArrays().size() != (long)nc * m.nech && !(nc * m.nech == 0))
    return f.set("invariant", "array-size", "array " + std::to_string(db->getArrays().size()) + " != ncol*nech " + std::to_string(nc * m.nech));
  // ---- names
  VectorString names = db->getAllNames();
  if ((int)names.size() != nc) return f.set("invariant", "getAllNames-size", "");
  {
    std::set<std::string> u(names.begin(), names.end());
    if ((int)u.size() != nc)
    {
      std::string all;
      for (auto& n : names) all += n + " ";
      return f.set("invariant", "names-unique", all);
    }
  }
  for (int ic = 0; ic < nc; ic++)
    if (names[ic] != m.cols[ic].name)
      return f.set("mismatch", "name", "col " + std::to_string(ic) + " impl '" + names[ic] + "' model '" + m.cols[ic].name + "'");
  // ---- designations
  for (int ic = 0; ic < nc; ic++)
  {
    const MCol& c = m.cols[ic];
    int uid = db->getUIDByColIdx(ic);
    if (uid != c.uid) return f.set("mismatch", "getUIDByColIdx", "col " + std::to_string(ic) + " impl " + std::to_string(uid) + " model " + std::to_string(c.uid));
    if (db->getColIdxByUID(uid) != ic) return f.set("invariant", "getColIdxByUID", "uid " + std::to_string(uid));
    bool amb = ambiguous(m, c.name);
    if (!amb && db->getColIdx(c.name) != ic) return f.set("invariant", "getColIdx(name)", c.name + " -> " + std::to_string(db->getColIdx(c.name)) + " expected " + std::to_string(ic));
    if (!amb && db->getUID(c.name) != uid) return f.set("invariant", "getUID(name)", c.name);
    if (db->getNameByColIdx(ic) != c.name) return f.set("invariant", "getNameByColIdx", c.name);
    if (db->getNameByUID(uid) != c.name) return f.set("invariant", "getNameByUID", c.name);
    VectorDouble v1 = db->getColumnByColIdx(ic, false, false);
    VectorDouble v2 = db->getColumnByUID(uid, false, false);
    VectorDouble v3 = amb ? v1 : db->getColumn(c.name, false, false);
    if ((int)v1.size() != m.nech || (int)v2.size() != m.nech || (int)v3.size() != m.nech)
      return f.set("invariant", "getColumn-size", c.name);
    for (int ie = 0; ie < m.nech; ie++)
    {
      if (!sameBits(v1[ie], c.v[ie]))
      {
        char b[200];
        snprintf(b, sizeof b, "col %d (%s) sample %d impl %.17g model %.17g", ic, c.name.c_str(), ie, v1[ie], c.v[ie]);
        return f.set("mismatch", "values", b);
      }
      if (!sameBits(v2[ie], c.v[ie])) return f.set("invariant", "getColumnByUID", c.name);
      if (!sameBits(v3[ie], c.v[ie])) return f.set("invariant", "getColumn(name)", c.name);
    }
    if (m.nech > 0)
    {
      int ie = (ic * 7 + 3) % m.nech;
      if (!sameBits(db->getArray(ie, uid), c.v[ie])) return f.set("invariant", "getArray", c.name);
      if (!sameBits(db->getValueByColIdx(ie, ic), c.v[ie])) return f.set("invariant", "getValueByColIdx", c.name);
      if (!amb && !sameBits(db->getValue(c.name, ie), c.v[ie])) return f.set("invariant", "getValue(name)", c.name);
    }
  }
  // ---- roles
  std::map<int, std::pair<int, int>> where; // uid -> (type, rank)
  for (int t = 0; t < NE(); t++)
  {
    ELoc lt = ELoc::fromValue(t);
    int n = db->getLocatorNumber(lt);
    std::vector<int> impl;
    for (int r = 0; r < n; r++) impl.push_back(db->getUIDByLocator(lt, r));
    for (int r = 0; r < n; r++)
    {
      int uid = impl[r];
      std::string at = std::string(lt.getKey()) + " rank " + std::to_string(r + 1) + " uid " + std::to_string(uid) + " list " + vstr(impl);
      if (uid < 0 || uid >= db->getUIDMaxNumber() || m.colOfUid(uid) < 0)
        return f.set("invariant", "role-designates-no-column", at);
      if (where.count(uid)) return f.set("invariant", "column-has-two-roles", at);
      where[uid] = {t, r};
      int ic = m.colOfUid(uid);
      if (db->getColIdxByLocator(lt, r) != ic) return f.set("invariant", "getColIdxByLocator", at);
      if (db->getNameByLocator(lt, r) != m.cols[ic].name) return f.set("invariant", "getNameByLocator", at);
      ELoc t2;
      int r2;
      if (!db->getLocatorByUID(uid, &t2, &r2) || t2.getValue() != t || r2 != r)
        return f.set("invariant", "getLocatorByUID", at);
      VectorDouble v = db->getColumnByLocator(lt, r, false, false);
      if ((int)v.size() != m.nech) return f.set("invariant", "getColumnByLocator-size", at);
      for (int ie = 0; ie < m.nech; ie++)
        if (!sameBits(v[ie], m.cols[ic].v[ie])) return f.set("invariant", "getColumnByLocator", at);
    }
    if (impl != m.roles[t])
      return f.set("mismatch", "roles", std::string(lt.getKey()) + " impl " + vstr(impl) + " model " + vstr(m.roles[t]));
  }
  // columns without a role
  for (int ic = 0; ic < nc; ic++)
  {
    if (where.count(m.cols[ic].uid)) continue;
    ELoc t2;
    int r2;
    if (db->getLocatorByColIdx(ic, &t2, &r2)) return f.set("invariant", "getLocatorByColIdx-unassigned", m.cols[ic].name);
  }
  VectorString locs = db->getLocators();
  if ((int)locs.size() != nc) return f.set("invariant", "getLocators-size", "");
  for (int ic = 0; ic < nc; ic++)
  {
    std::string exp = "NA";
    auto it = where.find(m.cols[ic].uid);
    if (it != where.end()) exp = getLocatorName(ELoc::fromValue(it->second.first), it->second.second);
    if (locs[ic] != exp) return f.set("invariant", "getLocators", "col " + std::to_string(ic) + " impl " + locs[ic] + " expected " + exp);
  }
  // ---- active samples
  int nact = m.nactive();
  if (db->getSampleNumber(true) != nact)
    return f.set("mismatch", "getSampleNumber(useSel)", "impl " + std::to_string(db->getSampleNumber(true)) + " model " + std::to_string(nact));
  {
    int cnt = 0;
    for (int ie = 0; ie < m.nech; ie++) cnt += db->isActive(ie) ? 1 : 0;
    if (cnt != nact) return f.set("mismatch", "isActive-count", "impl " + std::to_string(cnt) + " model " + std::to_string(nact));
  }
  if (db->isGrid())
  {
    const DbGrid* g = dynamic_cast<const DbGrid*>(db);
    if (g && !g->isConsistent()) return f.set("invariant", "grid-isConsistent", "");
  }
}

// ---------------------------------------------------------------- executor
struct Exec
{
  std::vector<Slot> pool;
  Ctx* ctx;
  std::string prop = "C07";

  ~Exec() { for (auto& s : pool) delete s.db; }

  static int mod(long a, long n) { return n <= 0 ? 0 : (int)(((a % n) + n) % n); }

  // choose a column designation from the op argument: mostly valid, sometimes ill-formed.
  // a >= 0 : valid column (a mod ncol); a < 0 : ill-formed flavour
  int pickCol(const MDb& m, long a) const
  {
    if (a < 0 || m.cols.empty()) return (a == -1) ? -1 : (int)m.cols.size() + (int)(-a);
    return mod(a, (long)m.cols.size());
  }
  int pickUid(const MDb& m, long a) const
  {
    if (a >= 0 && !m.cols.empty()) return m.cols[mod(a, (long)m.cols.size())].uid;
    if (a == -1) return -1;
    if (a == -2) return m.uidMax + 3;
    // a deleted uid if one exists
    for (int u = 0; u < m.uidMax; u++) if (m.colOfUid(u) < 0) return u;
    return m.uidMax;
  }
  std::string pickName(const MDb& m, long a) const
  {
    if (a >= 0 && !m.cols.empty())
    {
      // names are regular expressions for the library: use one that designates a single column
      for (size_t t = 0; t < m.cols.size(); t++)
      {
        const std::string& n = m.cols[mod(a + (long)t, (long)m.cols.size())].name;
        if (!ambiguous(m, n)) return n;
      }
    }
    return "nosuch";
  }
  int pickType(long a) const
  { // -1 => UNKNOWN
    if (a < 0) return -1;
    static const int common[] = {1, 1, 0, 2, 3, 10, 8, 9, 5, 6, 7, 22, 4, 12, 20};
    if (a < 15) return common[a];
    return mod(a, NE());
  }
  int pickSample(const MDb& m, long a) const
  {
    if (a >= 0 && m.nech > 0) return mod(a, m.nech);
    return a == -1 ? -1 : m.nech + 2;
  }
  std::string newName(long a) const { return BASE_NAMES[mod(a, NBASE)]; }

  static ELoc LT(int t) { return t < 0 ? ELoc::UNKNOWN : ELoc::fromValue(t); }

  // is column all 0/1 (admissible as a selection)?
  static bool is01(const MCol& c)
  {
    for (double x : c.v) if (!(x == 0. || x == 1.)) return false;
    return true;
  }
  // keep the premise "a selection column holds 0/1": writing into the SEL column is coerced
  double coerce(const MDb& m, int col, double v) const
  {
    if (col >= 0 && col == m.selCol()) return (v != 0. && !isUndef(v)) ? 1. : 0.;
    return v;
  }
  // role assignment admissible? SEL only on 0/1 columns
  // premises of the selection role: the column holds 0/1, and a Db holds ONE selection (getSelection, isActive and
  // addSelection* know a single 'sel'; with several, deleting or re-locating the first one silently promotes another
  // column - possibly not 0/1 - to selection). A request that would leave two is exercised with the weight role instead.
  int admissibleType(const MDb& m, int uid, int t, int rank = 0, bool clean = false) const
  {
    if (t == ELoc::SEL.getValue())
    {
      int c = m.colOfUid(uid);
      if (c >= 0 && !is01(m.cols[c])) return ELoc::W.getValue();
      const std::vector<int>& S = m.roles[(size_t)t];
      size_t count = clean ? 0 : S.size();
      bool single = (count == 0) ? (rank <= 0) : (count == 1 && (rank == 0 || (rank < 0 && S[0] == uid)));
      if (!single) return ELoc::W.getValue();
    }
    return t;
  }

  std::vector<double> genValues(Rng& r, int n, int flavour) const
  {
    std::vector<double> v(n);
    for (int k = 0; k < n; k++)
    {
      double x;
      switch (flavour % 5)
      {
        case 0: x = r.gauss(); break;
        case 1: x = (double)r.range(-3, 9); break;
        case 2: x = r.chance(0.25) ? TEST : r.uniform(-100, 100); break;
        case 3: x = r.chance(0.1) ? -0.0 : r.gauss() * 1e-300; break;
        default: x = r.gauss() * 1e200; break;
      }
      v[k] = x;
    }
    return v;
  }

  // ------------------------------------------------------------ one op
  // returns false when the run must stop (violation recorded)
  bool step(long idx, const Op& op)
  {
    Fail f;
    const std::string& k = op.kind;
    Rng r(hstr(k) ^ (uint64_t)(op.I(9, 0) * 7919 + idx * 104729 + 12345));
    ctx->begin(idx, k);
    if (getenv("SIMKIT_DEBUG_C07"))
      for (auto& s : pool)
      {
        // debugging aid for replays: columns (name, locator) of every Db before each op
        std::string l = "dbg before " + k + ":";
        for (int ic = 0; s.db && ic < s.db->getColumnNumber(); ic++)
        {
          ELoc t; int rk;
          s.db->getLocatorByColIdx(ic, &t, &rk);
          l += " [" + std::to_string(s.db->getUIDByColIdx(ic)) + "]" + s.db->getNameByColIdx(ic) + ":" + std::string(t.getKey()) + std::to_string(rk);
        }
        ctx->line(l);
      }
    bool illformed = false;

    if (k == "new")
    {
      Slot s;
      int flavour = mod(op.I(0), 5);
      int nech = 1 + mod(op.I(1), 40);
      int nvar = 1 + mod(op.I(2), 4);
      if (flavour == 0)
      {
        std::vector<double> tab = genValues(r, nech * nvar, (int)op.I(3));
        VectorString names, locs;
        for (int v = 0; v < nvar; v++)
        {
          names.push_back(BASE_NAMES[(v + op.I(4)) % NBASE]);
          locs.push_back(v == 0 ? "x1" : (v == 1 ? "x2" : (v == 2 ? "z1" : "z2")));
        }
        VectorDouble t(tab.begin(), tab.end());
        s.db = Db::createFromSamples(nech, op.I(5) % 2 ? ELoadBy::SAMPLE : ELoadBy::COLUMN, t, names, locs, op.I(6) % 2 == 0);
      }
      else if (flavour == 1)
      {
        s.db = Db::create();
      }
      else if (flavour == 2 || flavour == 3)
      {
        int ndim = 1 + mod(op.I(1), 3);
        VectorInt nx;
        VectorDouble dx, x0;
        for (int d = 0; d < ndim; d++) { nx.push_back(1 + mod(op.I(2) + d, ndim == 3 ? 3 : 5)); dx.push_back(0.5 + d); x0.push_back(-1. * d); }
        s.db = DbGrid::create(nx, dx, x0, VectorDouble(), ELoadBy::SAMPLE, VectorDouble(), VectorString(), VectorString(),
                              flavour == 2, op.I(6) % 2 == 0);
      }
      else
      {
        s.db = Db::createFillRandom(nech, 1 + mod(op.I(2), 3), 1 + mod(op.I(3), 2), mod(op.I(4), 2), 0, 0., 0., VectorDouble(), VectorDouble(),
                                    VectorDouble(), 1000 + (int)mod(op.I(5), 1000));
      }
      if (s.db == nullptr) { f.set("mismatch", "create-null", k); }
      else
      {
        adoptFrom(s.db, s.m);
        pool.push_back(s);
        if (pool.size() > 3) { delete pool.front().db; pool.erase(pool.begin()); }
      }
    }
    else if (pool.empty())
    {
      ctx->end(idx, "nopool");
      return true;
    }
    else
    {
      Slot& s = pool[mod(op.I(0), (long)pool.size())];
      Db* db = s.db;
      MDb& m = s.m;

      if (k == "copy")
      {
        // copy-construct / clone / assign, then the copy joins the pool: later edits on either side
        // are checked against their own model (independence)
        Slot c;
        int how = mod(op.I(1), 3);
        if (how == 0) c.db = db->clone();
        else if (how == 1)
        {
          if (db->isGrid()) c.db = new DbGrid(*dynamic_cast<DbGrid*>(db));
          else c.db = new Db(*db);
        }
        else
        {
          if (db->isGrid()) { DbGrid* g = new DbGrid(); *g = *dynamic_cast<DbGrid*>(db); c.db = g; }
          else { Db* d = new Db(); *d = *db; c.db = d; }
        }
        c.m = m;
        pool.push_back(c);
        if (pool.size() > 3) { delete pool.front().db; pool.erase(pool.begin()); }
        ctx->fp("copy");
      }
      else if (k == "addconst")
      {
        int nadd = (int)op.I(1);
        int t = pickType(op.I(2));
        int lrank = (int)op.I(3);
        std::string radix = newName(op.I(4));
        double val = op.D(0);
        int nechInit = (int)op.I(5);
        if (t == ELoc::SEL.getValue() && (nadd != 1 || m.roleCount(t) > 0)) t = ELoc::W.getValue(); // one selection per Db
        if (t == ELoc::SEL.getValue()) val = (val != 0.) ? 1. : 0.;
        if (lrank > m.roleCount(t)) lrank = m.roleCount(t); // placement beyond the end is exercised by setloc ops only
        if (nadd <= 0) illformed = true;
        int ret = db->addColumnsByConstant(nadd, val, radix, LT(t), lrank, nechInit);
        if (nadd > 0)
        {
          if (m.nech <= 0 && nechInit > 0 && !m.cols.empty()) m.adoptAll = true; // rows appear in pre-existing columns: content unspecified
          if (m.nech <= 0) m.nech = nechInit > 0 ? nechInit : m.nech;
          int first = m.uidMax;
          if (ret != first) f.set("mismatch", "addColumnsByConstant-return", std::to_string(ret) + " vs " + std::to_string(first));
          for (int a = 0; a < nadd; a++)
          {
            MCol c;
            c.uid = m.uidMax++;
            c.name = "?";
            c.v.assign(m.nech, val);
            m.cols.push_back(c);
            m.adoptNames.insert(c.uid);
          }
          if (t >= 0)
          {
            int rk = lrank < 0 ? m.roleCount(t) : lrank;
            for (int a = 0; a < nadd; a++) m.setLoc(first + a, t, rk + a, false);
          }
        }
        else if (ret != -1) f.set("mismatch", "addColumnsByConstant-return", "nadd<=0 must return -1");
      }
      else if (k == "addcols" || k == "addvvd" || k == "setcolumn-new")
      {
        int nvar = 1 + mod(op.I(1), 3);
        bool useSel = op.I(2) % 2 == 1;
        int t = pickType(op.I(3));
        int lrank = (int)op.I(4);
        if (t == ELoc::SEL.getValue() && m.roleCount(t) > 0) t = ELoc::W.getValue(); // one selection per Db
        if (lrank > m.roleCount(t)) lrank = m.roleCount(t);
        std::string radix = newName(op.I(5));
        int nrow = useSel ? m.nactive() : m.nech;
        bool wrongSize = op.I(6) == -1;
        if (m.nech <= 0) { nrow = 1 + mod(op.I(7), 6); useSel = false; }
        if (nrow == 0) { useSel = false; nrow = m.nech; } // all masked + useSel divides by zero in the library: see DESIGN (not exercised)
        if (k == "setcolumn-new") { nvar = 1; while (m.nameUsed(radix)) radix += "q"; }
        if (t == ELoc::SEL.getValue()) { useSel = false; nrow = m.nech > 0 ? m.nech : nrow; nvar = 1; } // defining the selection through itself is not exercised
        if (nrow == 1 || m.nech <= 0) wrongSize = false; // nvar+1 values over one row (or into an empty Db) are simply more variables
        std::vector<double> tab = genValues(r, nrow * nvar + (wrongSize ? 1 : 0), (int)op.I(8));
        if (t == ELoc::SEL.getValue()) for (auto& x : tab) x = (x > 0) ? 1. : 0.;
        bool hadColsNoRows = (m.nech <= 0 && !m.cols.empty());
        if (wrongSize) illformed = true;
        VectorDouble vt(tab.begin(), tab.end());
        // selection state BEFORE the op decides which rows are written
        std::vector<bool> act(m.nech > 0 ? m.nech : nrow, true);
        if (useSel) for (int ie = 0; ie < m.nech; ie++) act[ie] = m.active(ie);
        if (k == "addcols") db->addColumns(vt, radix, LT(t), lrank, useSel, TEST, nvar);
        else if (k == "setcolumn-new") db->setColumn(vt, radix, LT(t), lrank, useSel);
        else
        {
          VectorVectorDouble vvd(nvar);
          for (int v = 0; v < nvar; v++) vvd[v] = VectorDouble(tab.begin() + v * nrow, tab.begin() + (v + 1) * nrow);
          if (wrongSize) vvd[0].push_back(1.);
          db->addColumnsByVVD(vvd, radix, LT(t), lrank, useSel);
        }
        if (!wrongSize)
        {
          if (m.nech <= 0) m.nech = nrow;
          int first = m.uidMax;
          for (int v = 0; v < nvar; v++)
          {
            MCol c;
            c.uid = m.uidMax++;
            c.name = "?";
            c.v.assign(m.nech, k == "setcolumn-new" ? 0. : TEST); // Db::setColumn documents 0 as filler, the others TEST
            int lec = 0;
            for (int ie = 0; ie < m.nech; ie++)
              if (act[ie]) c.v[ie] = tab[v * nrow + lec++];
            m.cols.push_back(c);
            m.adoptNames.insert(c.uid);
          }
          if (t >= 0)
          {
            int rk = lrank < 0 ? m.roleCount(t) : lrank;
            for (int v = 0; v < nvar; v++) m.setLoc(first + v, t, rk + v, false);
          }
          if (hadColsNoRows) m.adoptAll = true; // rows appear in pre-existing columns: their content is unspecified
        }
      }
      else if (k == "addrandom")
      {
        int nadd = 1 + mod(op.I(1), 2);
        std::string radix = newName(op.I(2));
        int t = pickType(op.I(3));
        if (t == ELoc::SEL.getValue()) t = 1;
        if (m.nech <= 0) { ctx->end(idx, "skip"); return true; }
        db->addColumnsRandom(nadd, radix, LT(t), 0, 100 + (int)mod(op.I(4), 1000), 0);
        int first = m.uidMax;
        for (int a = 0; a < nadd; a++)
        {
          MCol c;
          c.uid = m.uidMax++;
          c.name = "?";
          c.v.assign(m.nech, 0.);
          m.cols.push_back(c);
          m.adoptNames.insert(c.uid);
          m.adoptValues.insert(c.uid);
        }
        if (t >= 0) for (int a = 0; a < nadd; a++) m.setLoc(first + a, t, a, false);
      }
      else if (k == "genrank")
      {
        if (m.nech <= 0) { ctx->end(idx, "skip"); return true; }
        db->generateRank(newName(op.I(1)));
        MCol c;
        c.uid = m.uidMax++;
        c.name = "?";
        for (int ie = 0; ie < m.nech; ie++) c.v.push_back(ie + 1);
        m.cols.push_back(c);
        m.adoptNames.insert(c.uid);
      }
      else if (k == "setcolumn" || k == "setcoluid" || k == "setcolcol")
      {
        if (m.cols.empty() || m.nech <= 0) { ctx->end(idx, "skip"); return true; }
        bool useSel = op.I(2) % 2 == 1;
        long a = op.I(1);
        if (k == "setcolumn" && a < 0) a = 0; // unknown name creates a column: covered by setcolumn-new
        int col = -1, uid = -1;
        std::string name;
        if (k == "setcolumn") { name = pickName(m, a); col = m.colOfName(name); }
        else if (k == "setcoluid") { uid = pickUid(m, a); col = m.colOfUid(uid); }
        else { col = pickCol(m, a); if (col >= (int)m.cols.size()) { illformed = true; } }
        if (col < 0 || col >= (int)m.cols.size()) illformed = true;
        if (!illformed && col == m.selCol()) useSel = false;
        int nrow = useSel ? m.nactive() : m.nech;
        std::vector<double> tab = genValues(r, nrow, (int)op.I(3));
        if (!illformed) for (auto& x : tab) x = coerce(m, col, x);
        VectorDouble vt(tab.begin(), tab.end());
        std::vector<bool> act(m.nech, true);
        if (useSel) for (int ie = 0; ie < m.nech; ie++) act[ie] = m.active(ie);
        if (k == "setcolumn") db->setColumn(vt, name, ELoc::UNKNOWN, 0, useSel);
        else if (k == "setcoluid") db->setColumnByUID(vt, uid, useSel);
        else db->setColumnByColIdx(vt, k == "setcolcol" ? (illformed ? (col < 0 ? -1 : col) : col) : col, useSel);
        if (!illformed)
        {
          int lec = 0;
          for (int ie = 0; ie < m.nech; ie++)
          {
            if (act[ie]) m.cols[col].v[ie] = tab[lec++];
            else if (k == "setcolcol" && useSel) m.cols[col].v[ie] = TEST; // documented: masked samples set to TEST by the by-column writer
          }
        }
      }
      else if (k == "dupcol" || k == "copyuid" || k == "copycol")
      {
        if (m.cols.empty()) { ctx->end(idx, "skip"); return true; }
        int cin, cout;
        if (k == "copycol")
        {
          cin = pickCol(m, op.I(1));
          cout = pickCol(m, op.I(2));
          db->copyByCol(cin, cout);
        }
        else
        {
          int uin = pickUid(m, op.I(1)), uout = pickUid(m, op.I(2));
          cin = m.colOfUid(uin);
          cout = m.colOfUid(uout);
          if (k == "dupcol") db->duplicateColumnByUID(uin, uout);
          else db->copyByUID(uin, uout);
        }
        bool ok = cin >= 0 && cin < (int)m.cols.size() && cout >= 0 && cout < (int)m.cols.size();
        if (ok && (cout == m.selCol()) && !is01(m.cols[cin])) { /* premise kept below */ }
        if (ok) m.cols[cout].v = m.cols[cin].v;
        else illformed = true;
        // selection premise: if the SEL column received non 0/1 data, drop its role in both
        if (ok && cout == m.selCol() && !is01(m.cols[cout]))
        {
          db->clearLocators(ELoc::SEL);
          m.roles[ELoc::SEL.getValue()].clear();
        }
      }
      else if (k == "delname" || k == "deluid" || k == "delcol")
      {
        if (k == "delname")
        {
          std::string n = pickName(m, op.I(1));
          int c = m.colOfName(n);
          db->deleteColumn(n);
          if (c >= 0) m.deleteUid(m.cols[c].uid); else illformed = true;
        }
        else if (k == "deluid")
        {
          int u = pickUid(m, op.I(1));
          db->deleteColumnByUID(u);
          if (m.colOfUid(u) >= 0) m.deleteUid(u); else illformed = true;
        }
        else
        {
          int c = pickCol(m, op.I(1));
          db->deleteColumnByColIdx(c);
          if (c >= 0 && c < (int)m.cols.size()) m.deleteUid(m.cols[c].uid); else illformed = true;
        }
      }
      else if (k == "delnames" || k == "deluids" || k == "delcols")
      {
        int n = 1 + mod(op.I(1), 3);
        if (k == "delnames")
        {
          VectorString ns;
          std::vector<int> uids;
          bool allKnown = true;
          for (int a = 0; a < n; a++)
          {
            std::string nm = pickName(m, op.I(2 + a, a));
            if (std::find(ns.begin(), ns.end(), nm) != ns.end()) continue;
            ns.push_back(nm);
            int c = m.colOfName(nm);
            if (c < 0) allKnown = false; else uids.push_back(m.cols[c].uid);
          }
          db->deleteColumns(ns);
          // documented: names are expanded; an unknown name designates nothing
          if (allKnown) for (int u : uids) m.deleteUid(u);
          else { illformed = true; m.adoptAll = true; }
        }
        else if (k == "deluids")
        {
          VectorInt us;
          for (int a = 0; a < n; a++)
          {
            int u = pickUid(m, op.I(2 + a, a));
            if (std::find(us.begin(), us.end(), u) == us.end()) us.push_back(u);
          }
          db->deleteColumnsByUID(us);
          for (int u : us) m.deleteUid(u);
        }
        else
        {
          VectorInt cs;
          std::vector<int> uids;
          for (int a = 0; a < n; a++)
          {
            int c = pickCol(m, op.I(2 + a, a));
            if (std::find(cs.begin(), cs.end(), c) != cs.end()) continue; // a set of columns: each listed once
            cs.push_back(c);
            if (c >= 0 && c < (int)m.cols.size()) uids.push_back(m.cols[c].uid);
          }
          db->deleteColumnsByColIdx(cs);
          for (int u : uids) m.deleteUid(u);
        }
      }
      else if (k == "delloc")
      {
        int t = pickType(op.I(1));
        if (t < 0) t = 1;
        db->deleteColumnsByLocator(LT(t));
        std::vector<int> us = m.roles[t];
        for (int u : us) m.deleteUid(u);
      }
      else if (k == "delrange")
      {
        int u = pickUid(m, op.I(1));
        int n = 1 + mod(op.I(2), 3);
        db->deleteColumnsByUIDRange(u, n);
        if (u > 0) for (int a = n - 1; a >= 0; a--) m.deleteUid(u + a); // documented quirk: i_del <= 0 does nothing
      }
      else if (k == "setname" || k == "setnameuid" || k == "setnamecol")
      {
        std::string nn = newName(op.I(2));
        if (op.I(3) % 4 == 0 && !m.cols.empty()) nn = m.cols[mod(op.I(4), (long)m.cols.size())].name; // collide on purpose
        int c = -1;
        if (k == "setname") { std::string o = pickName(m, op.I(1)); c = m.colOfName(o); db->setName(o, nn); }
        else if (k == "setnameuid") { int u = pickUid(m, op.I(1)); c = m.colOfUid(u); db->setNameByUID(u, nn); }
        else { c = pickCol(m, op.I(1)); if (c >= (int)m.cols.size()) c = -1; db->setNameByColIdx(c < 0 ? pickCol(m, op.I(1)) : c, nn); }
        if (c >= 0)
        {
          if (!m.nameUsed(nn, c)) m.cols[c].name = nn; // free name: must be taken as is
          else m.adoptNames.insert(m.cols[c].uid);     // taken name: suffix choice is the library's
        }
        else illformed = true;
      }
      else if (k == "setnamelist")
      {
        int n = 1 + mod(op.I(1), 3);
        VectorString list;
        std::set<int> cs;
        for (int a = 0; a < n; a++)
        {
          std::string nm = pickName(m, op.I(3 + a, a));
          list.push_back(nm);
          int c = m.colOfName(nm);
          if (c >= 0) cs.insert(c);
        }
        db->setName(list, newName(op.I(2)));
        (void)cs;
        for (auto& c : m.cols) m.adoptNames.insert(c.uid); // list renaming re-runs the de-duplication over all names: only uniqueness is demanded
      }
      else if (k == "setnameloc")
      {
        int t = pickType(op.I(1));
        if (t < 0) t = 1;
        db->setNameByLocator(LT(t), newName(op.I(2)));
        for (auto& c : m.cols) m.adoptNames.insert(c.uid);
      }
      else if (k == "setloc" || k == "setlocuid" || k == "setloccol")
      {
        int t = pickType(op.I(2));
        int rank = (int)op.I(3);
        bool clean = op.I(4) % 2 == 1;
        int uid = -1;
        if (k == "setloc")
        {
          std::string n = pickName(m, op.I(1));
          int c = m.colOfName(n);
          uid = c >= 0 ? m.cols[c].uid : -1;
          t = admissibleType(m, uid, t, rank, clean);
          db->setLocator(n, LT(t), rank, clean);
          if (c < 0) illformed = true;
        }
        else if (k == "setlocuid")
        {
          uid = pickUid(m, op.I(1));
          t = admissibleType(m, uid, t, rank, clean);
          db->setLocatorByUID(uid, LT(t), rank, clean);
          if (m.colOfUid(uid) < 0) illformed = true;
        }
        else
        {
          int c = pickCol(m, op.I(1));
          uid = (c >= 0 && c < (int)m.cols.size()) ? m.cols[c].uid : -1;
          t = admissibleType(m, uid, t, rank, clean);
          db->setLocatorByColIdx(c, LT(t), rank, clean);
          if (uid < 0) illformed = true;
        }
        if (uid >= 0 && m.colOfUid(uid) >= 0) m.setLoc(uid, t, rank, clean);
        ctx->fp(std::string("rank") + (rank < 0 ? "next" : (rank > m.roleCount(t) ? "beyond" : "in")));
      }
      else if (k == "setlocs" || k == "setlocsuidv" || k == "setlocscol" || k == "setlocsuidn")
      {
        int n = 1 + mod(op.I(1), 3);
        int t = pickType(op.I(2));
        int rank = (int)op.I(3);
        bool clean = op.I(4) % 2 == 1;
        std::vector<int> uids;
        VectorString names;
        VectorInt vu, vc;
        bool ok = true;
        if (k == "setlocsuidn")
        {
          int u0 = pickUid(m, op.I(5));
          for (int a = 0; a < n; a++) uids.push_back(u0 + a);
        }
        else
          for (int a = 0; a < n; a++)
          {
            int c = pickCol(m, op.I(5 + a, 2 * a + 1));
            if (c < 0 || c >= (int)m.cols.size()) { ok = false; names.push_back("nosuch"); vu.push_back(-1); vc.push_back(c); uids.push_back(-1); continue; }
            names.push_back(m.cols[c].name);
            vu.push_back(m.cols[c].uid);
            vc.push_back(c);
            uids.push_back(m.cols[c].uid);
          }
        // distinct designations only (a name listed twice is expanded once by the library)
        {
          std::set<int> u(uids.begin(), uids.end());
          if (u.size() != uids.size()) { ctx->end(idx, "skip-dup"); return true; }
        }
        if (t == ELoc::SEL.getValue()) t = ELoc::W.getValue();
        // names are patterns: one that also designates another column expands to several columns (documented): premise
        if (k == "setlocs")
          for (auto& nm : names) if (nm != "nosuch" && ambiguous(m, nm)) { ctx->end(idx, "skip-ambiguous"); return true; }
        if (k == "setlocs") db->setLocators(names, LT(t), rank, clean);
        else if (k == "setlocsuidv") db->setLocatorsByUID(vu, LT(t), rank, clean);
        else if (k == "setlocscol") db->setLocatorsByColIdx(vc, LT(t), rank, clean);
        else db->setLocatorsByUID(n, uids[0], LT(t), rank, clean);
        if (!ok && k == "setlocs") { illformed = true; m.adoptAll = true; } // unknown name inside a list: expansion rule adopted
        else
        {
          if (!ok) illformed = true;
          if (clean && t >= 0) m.roles[t].clear();
          int rk = rank < 0 ? m.roleCount(t) : rank;
          for (size_t a = 0; a < uids.size(); a++) m.setLoc(uids[a], t, rk + (int)a, false);
        }
      }
      else if (k == "clearloc")
      {
        int t = pickType(op.I(1));
        if (t < 0) t = 1;
        db->clearLocators(LT(t));
        m.roles[t].clear();
      }
      else if (k == "switchloc")
      {
        int t1 = pickType(op.I(1)), t2 = pickType(op.I(2));
        if (t1 < 0) t1 = 1;
        if (t2 < 0) t2 = 3;
        if (t1 == t2) t2 = (t1 + 1) % NE();
        if (t2 == ELoc::SEL.getValue() || t1 == ELoc::SEL.getValue()) { ctx->end(idx, "skip"); return true; }
        db->switchLocator(LT(t1), LT(t2));
        for (int u : m.roles[t1]) m.roles[t2].push_back(u);
        m.roles[t1].clear();
      }
      else if (k == "addsel" || k == "addselranks" || k == "addsellimit" || k == "addselrandom")
      {
        if (m.nech <= 0) { ctx->end(idx, "skip"); return true; }
        static const char* combs[] = {"set", "and", "or", "not", "xor"};
        std::string comb = combs[mod(op.I(2), 5)];
        std::string nm = newName(op.I(1));
        std::vector<double> sel(m.nech, 0.);
        bool adoptVals = false, refused = false;
        if (k == "addsel")
        {
          bool empty = op.I(3) % 5 == 0;
          std::vector<double> tab = genValues(r, m.nech, 1);
          bool wrong = op.I(3) == -1;
          if (wrong) { tab.push_back(1.); illformed = true; }
          VectorDouble vt(tab.begin(), tab.end());
          if (empty) vt.clear();
          int ret = db->addSelection(vt, nm, comb);
          if (wrong && !empty)
          {
            if (ret != -1) f.set("mismatch", "addSelection-return", "wrong size must return -1");
            refused = true;
          }
          else for (int ie = 0; ie < m.nech; ie++) sel[ie] = empty ? 1. : (tab[ie] != 0. ? 1. : 0.);
        }
        else if (k == "addselranks")
        {
          VectorInt ranks;
          int n = mod(op.I(3), m.nech + 1);
          for (int a = 0; a < n; a++) { int ie = (int)r.below(m.nech); ranks.push_back(ie); sel[ie] = 1.; }
          db->addSelectionByRanks(ranks, nm, comb);
        }
        else if (k == "addsellimit")
        {
          if (m.cols.empty()) { ctx->end(idx, "skip"); return true; }
          int c = pickCol(m, mod(op.I(3), 1000));
          if (ambiguous(m, m.cols[c].name)) { ctx->end(idx, "skip"); return true; }
          double lo = op.D(0), hi = op.D(1);
          if (lo > hi) std::swap(lo, hi);
          bool withLim = op.I(4) % 2 == 0;
          Limits lim = withLim ? Limits(VectorDouble{lo}, VectorDouble{hi}) : Limits();
          db->addSelectionByLimit(m.cols[c].name, lim, nm, comb);
          adoptVals = true; // interval closure convention adopted; must be 0/1 and 0 on undefined
        }
        else
        {
          db->addSelectionRandom(op.D(0) < 0 ? 0.3 : std::min(1., op.D(0)), 10 + (int)mod(op.I(3), 500), nm, comb);
          adoptVals = true;
        }
        if (!refused)
        {
          // combine with the previous selection
          int sc = m.selCol();
          if (comb == "not") for (auto& x : sel) x = 1. - x;
          else if (comb != "set" && sc >= 0)
            for (int ie = 0; ie < m.nech; ie++)
            {
              bool o = m.cols[sc].v[ie] != 0., nw = sel[ie] != 0.;
              bool rr = comb == "and" ? (o && nw) : comb == "or" ? (o || nw) : (o != nw);
              sel[ie] = rr ? 1. : 0.;
            }
          MCol c;
          c.uid = m.uidMax++;
          c.name = "?";
          c.v = sel;
          m.cols.push_back(c);
          m.adoptNames.insert(c.uid);
          if (adoptVals) m.adoptValues.insert(c.uid);
          m.setLoc(c.uid, ELoc::SEL.getValue(), 0, false);
        }
      }
      else if (k == "addsamples")
      {
        int nadd = (int)op.I(1);
        double val = op.D(0);
        int ret = db->addSamples(nadd, val);
        if (m.grid || nadd <= 0)
        {
          illformed = true;
          if (ret != -1) f.set("mismatch", "addSamples-return", "refusal must return -1");
        }
        else
        {
          if (ret != m.nech) f.set("mismatch", "addSamples-return", "");
          for (auto& c : m.cols)
          {
            double v = val;
            c.v.resize(m.nech + nadd, v);
          }
          // keep selection premise: new rows of the SEL column hold 'val'
          int sc = m.selCol();
          m.nech += nadd;
          if (sc >= 0 && !is01(m.cols[sc]))
          {
            db->clearLocators(ELoc::SEL);
            m.roles[ELoc::SEL.getValue()].clear();
          }
        }
      }
      else if (k == "delsample")
      {
        int ie = pickSample(m, op.I(1));
        int ret = db->deleteSample(ie);
        if (m.grid || ie < 0 || ie >= m.nech)
        {
          illformed = true;
          if (ret == 0) f.set("mismatch", "deleteSample-return", "refusal must not return 0");
        }
        else
        {
          for (auto& c : m.cols) c.v.erase(c.v.begin() + ie);
          m.nech--;
        }
      }
      else if (k == "delsamples")
      {
        if (m.grid || m.nech <= 0) { ctx->end(idx, "skip"); return true; }
        int n = 1 + mod(op.I(1), 3);
        std::set<int> ies;
        for (int a = 0; a < n; a++) ies.insert(mod(op.I(2 + a, 5 * a), m.nech));
        VectorInt v(ies.begin(), ies.end());
        db->deleteSamples(v);
        for (auto it = ies.rbegin(); it != ies.rend(); ++it)
        {
          for (auto& c : m.cols) c.v.erase(c.v.begin() + *it);
          m.nech--;
        }
      }
      else if (k == "setvalue" || k == "setarray" || k == "setvalcol" || k == "updarray")
      {
        int ie = pickSample(m, op.I(2));
        double val = op.D(0);
        int c = -1;
        if (k == "setvalue")
        {
          std::string n = pickName(m, op.I(1));
          c = m.colOfName(n);
          val = coerce(m, c, val);
          db->setValue(n, ie, val);
        }
        else if (k == "setarray" || k == "updarray")
        {
          int u = pickUid(m, op.I(1));
          c = m.colOfUid(u);
          val = coerce(m, c, val);
          if (k == "setarray") db->setArray(ie, u, val);
          else
          {
            if (c == m.selCol() && c >= 0) { ctx->end(idx, "skip"); return true; }
            db->updArray(ie, u, EOperator::ADD, val);
          }
        }
        else
        {
          c = pickCol(m, op.I(1));
          if (c >= (int)m.cols.size()) { db->setValueByColIdx(ie, c, val); c = -1; }
          else { val = coerce(m, c, val); db->setValueByColIdx(ie, c, val); }
        }
        if (c >= 0 && ie >= 0 && ie < m.nech)
        {
          if (k == "updarray")
          {
            double old = m.cols[c].v[ie];
            m.cols[c].v[ie] = (FFFF(old) || FFFF(val)) ? TEST : val + old; // documented: undefined operand gives undefined
          }
          else m.cols[c].v[ie] = val;
        }
        else illformed = true;
      }
      else if (k == "setlocvar" || k == "setcoord")
      {
        int t = k == "setcoord" ? 0 : pickType(op.I(1));
        int item = (int)op.I(3);
        int ie = pickSample(m, op.I(2));
        double val = op.D(0);
        int c = -1;
        if (item < 0) item = 0;
        if (t >= 0 && item < m.roleCount(t)) c = m.colOfUid(m.roles[t][item]);
        val = coerce(m, c, val);
        if (k == "setcoord")
        {
          if (m.grid) { ctx->end(idx, "skip"); return true; }
          db->setCoordinate(ie, item, val);
        }
        else db->setLocVariable(LT(t), ie, item, val);
        if (c >= 0 && ie >= 0 && ie < m.nech) m.cols[c].v[ie] = coerce(m, c, val);
        else illformed = true;
      }
      else if (k == "setarraysample")
      {
        int ie = pickSample(m, op.I(1));
        bool wrong = op.I(2) == -1;
        std::vector<double> vals = genValues(r, (int)m.cols.size() + (wrong ? 1 : 0), (int)op.I(3));
        for (size_t c = 0; c < m.cols.size(); c++) vals[c] = coerce(m, (int)c, vals[c]);
        VectorDouble vv(vals.begin(), vals.end());
        db->setArrayBySample(ie, vv);
        if (!wrong && ie >= 0 && ie < m.nech)
          for (size_t c = 0; c < m.cols.size(); c++) m.cols[c].v[ie] = vals[c];
        else illformed = true;
      }
      else if (k == "setitem" || k == "setitemrows" || k == "setitemloc")
      {
        if (m.cols.empty() || m.nech <= 0) { ctx->end(idx, "skip"); return true; }
        bool useSel = op.I(2) % 2 == 1;
        if (k == "setitem")
        {
          int c = pickCol(m, mod(op.I(1), 1000));
          if (c == m.selCol() || ambiguous(m, m.cols[c].name)) { ctx->end(idx, "skip"); return true; }
          int nrow = useSel ? m.nactive() : m.nech;
          bool wrong = op.I(3) == -1;
          std::vector<double> vals = genValues(r, nrow + (wrong ? 1 : 0), (int)op.I(4));
          VectorDouble vv(vals.begin(), vals.end());
          std::vector<bool> act(m.nech, true);
          if (useSel) for (int ie = 0; ie < m.nech; ie++) act[ie] = m.active(ie);
          int ret = db->setItem(m.cols[c].name, vv, useSel);
          if (wrong) { illformed = true; if (ret == 0) f.set("mismatch", "setItem-return", "wrong size accepted"); }
          else
          {
            int lec = 0;
            for (int ie = 0; ie < m.nech; ie++) if (act[ie]) m.cols[c].v[ie] = vals[lec++];
          }
        }
        else if (k == "setitemrows")
        {
          int c = pickCol(m, mod(op.I(1), 1000));
          if (c == m.selCol() || ambiguous(m, m.cols[c].name)) { ctx->end(idx, "skip"); return true; }
          int n = 1 + mod(op.I(3), 4);
          VectorInt rows;
          std::set<int> used;
          for (int a = 0; a < n; a++) { int ie = mod(op.I(4 + a, 3 * a), m.nech); if (used.insert(ie).second) rows.push_back(ie); }
          std::vector<double> vals = genValues(r, (int)rows.size(), (int)op.I(8));
          VectorDouble vv(vals.begin(), vals.end());
          db->setItem(rows, m.cols[c].name, vv, false);
          for (size_t a = 0; a < rows.size(); a++) m.cols[c].v[rows[a]] = vals[a];
        }
        else
        {
          int t = pickType(op.I(1));
          if (t < 0 || t == ELoc::SEL.getValue() || m.roleCount(t) == 0) { ctx->end(idx, "skip"); return true; }
          int nv = m.roleCount(t);
          for (int u : m.roles[t]) if (ambiguous(m, m.cols[m.colOfUid(u)].name)) { ctx->end(idx, "skip"); return true; }
          int nrow = useSel ? m.nactive() : m.nech;
          VectorVectorDouble vals(nv);
          std::vector<std::vector<double>> raw(nv);
          for (int v = 0; v < nv; v++) { raw[v] = genValues(r, nrow, (int)op.I(4) + v); vals[v] = VectorDouble(raw[v].begin(), raw[v].end()); }
          std::vector<bool> act(m.nech, true);
          if (useSel) for (int ie = 0; ie < m.nech; ie++) act[ie] = m.active(ie);
          db->setItem(LT(t), vals, useSel);
          for (int v = 0; v < nv; v++)
          {
            int c = m.colOfUid(m.roles[t][v]);
            int lec = 0;
            for (int ie = 0; ie < m.nech; ie++) if (act[ie]) m.cols[c].v[ie] = raw[v][lec++];
          }
        }
      }
      else
      {
        ctx->end(idx, "unknown-op");
        return true;
      }
    }
    ctx->count(std::string("flavour.") + (illformed ? "illformed" : "wellformed"));
    if (illformed) ctx->fp("ill");
    // compare every pool member (edits on one must not move another: copies are independent)
    Digest d;
    if (!f.bad) for (auto& s : pool) if (s.m.beyondEnd) ctx->fp("beyond");
    for (size_t p = 0; p < pool.size() && !f.bad; p++)
    {
      compare(pool[p].db, pool[p].m, f);
      digestDb(d, pool[p].db);
    }
    if (f.bad)
    {
      bool hole = false;
      for (auto& s : pool) hole = hole || s.m.beyondEnd;
      if (hole && f.cls == "invariant" && (f.obs == "column-has-two-roles" || f.obs == "role-designates-no-column"))
        ctx->violation(prop + "|invariant|role-list-hole-after-rank-beyond-end", "op " + k + ": " + f.obs + " " + f.detail);
      else
      ctx->violation(prop + "|" + f.cls + "|" + f.obs + "|op=" + k, f.detail);
      return false;
    }
    for (auto& s : pool) s.m.beyondEnd = false;
    ctx->end(idx, d.hex());
    return true;
  }
};

struct DbModel : Workload
{
  std::string prop() const override { return "C07"; }
  long defaultRuns(const Tier& t) const override { return t.thorough ? 400000 : 12000; }
  std::string rule() const override
  {
    return "seeded op histories (3-40 public editing ops, ~20% ill-formed flavours) on a pool of 1-3 Db/DbGrid objects incl. copies, "
           "each op mirrored on a reference table model and all observers compared after every op; names over [a-z]+ plus library-made "
           "suffixes (names are regex patterns in gstlearn); a selection column holds 0/1; distinct = hash of (op-kind sequence, "
           "ill-formed flags, rank placement class, outcome); non-trivial = at least 3 editing ops executed and compared";
  }
  std::vector<std::string> realComponents() const override { return {"Db", "DbGrid", "PtrGeos", "String helpers (name dedup, regex expansion)"}; }
  std::vector<std::string> stubComponents() const override { return {"reference table model (oracle)", "message sinks"}; }

  Plan generate(uint64_t seed, long run, const Tier&) override
  {
    Plan p;
    p.prop = "C07";
    p.seed = seed;
    p.run = run;
    Rng shape = stream(seed, "C07", run, "shape");
    Rng ops = stream(seed, "C07", run, "ops");
    static const std::vector<std::string> kinds = {
        "addconst", "addcols", "addvvd", "setcolumn-new", "addrandom", "genrank", "setcolumn", "setcoluid", "setcolcol", "dupcol", "copyuid",
        "copycol", "delname", "deluid", "delcol", "delnames", "deluids", "delcols", "delloc", "delrange", "setname", "setnameuid",
        "setnamecol", "setnamelist", "setnameloc", "setloc", "setlocuid", "setloccol", "setlocs", "setlocsuidv", "setlocscol",
        "setlocsuidn", "clearloc", "switchloc", "addsel", "addselranks", "addsellimit", "addselrandom", "addsamples", "delsample",
        "delsamples", "setvalue", "setarray", "setvalcol", "updarray", "setlocvar", "setcoord", "setarraysample", "setitem",
        "setitemrows", "setitemloc", "copy", "new"};
    // swarm: random subset of kinds enabled this run
    std::vector<std::string> enabled;
    double keep = shape.uniform(0.25, 1.0);
    for (auto& k : kinds) if (shape.chance(keep)) enabled.push_back(k);
    if (enabled.size() < 4) enabled = kinds;
    double pill = shape.chance(0.3) ? 0. : shape.uniform(0.05, 0.35);
    long nops = shape.chance(0.7) ? shape.range(3, 14) : shape.range(15, 40);
    auto mk = [&](const std::string& kind) {
      Op o;
      o.kind = kind;
      for (int a = 0; a < 10; a++) o.i.push_back(ops.range(0, 60));
      o.i[0] = ops.range(0, 5);
      // small ranks / counts
      o.i[3] = ops.range(-1, 3);
      if (kind == "addconst") { o.i[1] = ops.range(1, 3); o.i[2] = ops.chance(0.4) ? -1 : ops.range(0, 16); o.i[5] = ops.range(0, 8); }
      if (kind == "addsamples") o.i[1] = ops.range(1, 4);
      if (kind == "setloc" || kind == "setlocuid" || kind == "setloccol" || kind.rfind("setlocs", 0) == 0)
      {
        o.i[2] = ops.chance(0.15) ? -1 : ops.range(0, 16);
        o.i[3] = ops.chance(0.35) ? -1 : ops.range(0, 3);
      }
      if (kind == "addcols" || kind == "addvvd" || kind == "setcolumn-new") { o.i[3] = ops.chance(0.4) ? -1 : ops.range(0, 16); o.i[4] = ops.range(-1, 2); o.i[6] = 0; }
      if (kind == "addsel" || kind == "setitem" || kind == "setarraysample") { /* i[3]/i[2] = -1 => wrong size */ }
      o.d = {ops.chance(0.15) ? TEST : (ops.chance(0.3) ? (double)ops.range(-2, 5) : ops.gauss() * 10), ops.gauss() * 10};
      if (ops.chance(pill))
      {
        // one ill-formed ingredient
        int which = (int)ops.below(4);
        if (which == 0) o.i[1] = -1 - ops.below(3);
        else if (which == 1) o.i[2] = -1 - ops.below(2);
        else if (which == 2) { if (kind == "addsel") o.i[3] = -1; else if (kind == "addcols" || kind == "addvvd") o.i[6] = -1; else o.i[1] = -3; }
        else o.i[3] = ops.range(4, 9); // rank far beyond the end
      }
      return o;
    };
    p.ops.push_back(mk("new"));
    if (shape.chance(0.3)) p.ops.push_back(mk("new"));
    for (long k = 0; k < nops; k++) p.ops.push_back(mk(enabled[ops.below((long)enabled.size())]));
    return p;
  }

  void execute(const Plan& p, Ctx& c) override
  {
    childInit();
    Exec ex;
    ex.ctx = &c;
    long edits = 0;
    for (size_t k = 0; k < p.ops.size(); k++)
    {
      if (!ex.step((long)k, p.ops[k])) return;
      if (p.ops[k].kind != "new") edits++;
    }
    if (edits >= 3) c.nontrivial();
  }
};

} // namespace

namespace sk {
Workload* makeWorkload_C07() { return new DbModel(); }
}
