// Shared helpers on top of gstlearn for all workloads
#pragma once
#include "core.hpp"

#include "Basic/VectorNumT.hpp"
#include "Basic/VectorHelper.hpp"
#include "Basic/AStringable.hpp"
#include "Db/Db.hpp"
#include "Db/DbGrid.hpp"
#include "Enum/ELoc.hpp"

#include <omp.h>
#include <sys/resource.h>

namespace sk {

inline bool sameBits(double a, double b)
{
  if (std::isnan(a) && std::isnan(b)) return true;
  uint64_t x, y;
  memcpy(&x, &a, 8);
  memcpy(&y, &b, 8);
  return x == y;
}
// TEST (1.234e30) and NaN are both "undefined" for the library
inline bool isUndef(double a) { return std::isnan(a) || FFFF(a); }

inline std::vector<ELoc> allLocs()
{
  std::vector<ELoc> v;
  for (int i = 0; i < Db::getNEloc(); i++) v.push_back(ELoc::fromValue(i));
  return v;
}

// canonical digest of a Db: column order, names, roles, sample count, all values
inline void digestDb(Digest& d, const Db* db)
{
  if (db == nullptr) { d.s("null"); return; }
  d.i(db->isGrid());
  d.i(db->getColumnNumber());
  d.i(db->getSampleNumber());
  VectorString names = db->getAllNames();
  for (auto& n : names) d.s(n);
  for (int ic = 0; ic < db->getColumnNumber(); ic++)
  {
    ELoc t;
    int r;
    db->getLocatorByColIdx(ic, &t, &r);
    d.i(t.getValue());
    d.i(r);
    VectorDouble v = db->getColumnByColIdx(ic, false, false);
    d.i((long)v.size());
    for (double x : v) d.d(FFFF(x) ? std::nan("") : x);
  }
  for (int il = 0; il < Db::getNEloc(); il++) d.i(db->getLocatorNumber(ELoc::fromValue(il)));
  if (db->isGrid())
  {
    const DbGrid* g = dynamic_cast<const DbGrid*>(db);
    if (g)
    {
      d.i(g->getNDim());
      for (int k = 0; k < g->getNDim(); k++) { d.i(g->getNX(k)); d.d(g->getDX(k)); d.d(g->getX0(k)); }
      d.vd(g->getAngles());
    }
  }
}
inline std::string dbDigest(const Db* db)
{
  Digest d;
  digestDb(d, db);
  return d.hex();
}

inline void childInit()
{
  omp_set_num_threads(1);
  // the grid-format readers leak their FILE* on early returns: a sweep must not run out of descriptors
  struct rlimit rl;
  if (getrlimit(RLIMIT_NOFILE, &rl) == 0 && rl.rlim_cur < rl.rlim_max)
  {
    rl.rlim_cur = rl.rlim_max;
    setrlimit(RLIMIT_NOFILE, &rl);
  }
}

} // namespace sk
