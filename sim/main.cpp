// simkit entry point: dispatches to the workloads linked into this binary
#include "core.hpp"
namespace sk {
#define W(id) Workload* makeWorkload_##id();
#include "workloads.inc"
#undef W
Workload* makeWorkload(const std::string& prop)
{
#define W(id) if (prop == #id) return makeWorkload_##id();
#include "workloads.inc"
#undef W
  return nullptr;
}
}
int main(int argc, char** argv) { return sk::simkitMain(argc, argv); }
