// C11 — matrix and vector classes compute what linear algebra defines, in every storage.
// Workload "matrep": one seeded op history applied to every storage replica (rectangular, square
// general, square symmetric, sparse/Eigen, sparse/cs) and to a naive reference model; the thread
// count and the sparse back-end default are switched mid-history.
#include "gl.hpp"

#include "LinearOp/CholeskyDense.hpp"
#include "LinearOp/CholeskySparse.hpp"
#include "Matrix/AMatrix.hpp"
#include "Matrix/AMatrixDense.hpp"
#include "Matrix/MatrixRectangular.hpp"
#include "Matrix/MatrixSparse.hpp"
#include "Matrix/MatrixSquareGeneral.hpp"
#include "Matrix/MatrixSquareSymmetric.hpp"
#include "Matrix/NF_Triplet.hpp"

#include <dlfcn.h>

using namespace sk;

// ---------------------------------------------------------------- parallel-region reach probe
static long g_parRegions = 0, g_parThreadsMax = 0;
extern "C" void GOMP_parallel(void (*fn)(void*), void* data, unsigned num_threads, unsigned flags)
{
  typedef void (*real_t)(void (*)(void*), void*, unsigned, unsigned);
  static real_t real = (real_t)dlsym(RTLD_NEXT, "GOMP_parallel");
  g_parRegions++;
  long nt = num_threads ? (long)num_threads : (long)omp_get_max_threads();
  if (nt > g_parThreadsMax) g_parThreadsMax = nt;
  real(fn, data, num_threads, flags);
}

namespace {

typedef std::vector<std::vector<double>> Mat; // reference model: row-major

struct Ref
{
  int nr = 0, nc = 0;
  Mat a;
  void reshape(int r, int c) { nr = r; nc = c; a.assign(r, std::vector<double>(c, 0.)); }
  bool square() const { return nr == nc; }
  bool symmetric() const
  {
    if (!square()) return false;
    for (int i = 0; i < nr; i++) for (int j = 0; j < i; j++) if (!sameBits(a[i][j], a[j][i]) && a[i][j] != a[j][i]) return false;
    return true;
  }
};

enum Kind { RECT = 0, SQG = 1, SYM = 2, SPE = 3, SPC = 4, NKIND = 5 };
const char* KN[] = {"MatrixRectangular", "MatrixSquareGeneral", "MatrixSquareSymmetric", "MatrixSparse(Eigen)", "MatrixSparse(cs)"};

AMatrix* buildReplica(int kind, const Ref& r)
{
  AMatrix* m = nullptr;
  if (kind == RECT) m = new MatrixRectangular(r.nr, r.nc);
  else if (kind == SQG) m = new MatrixSquareGeneral(r.nr);
  else if (kind == SYM) m = new MatrixSquareSymmetric(r.nr);
  else if (kind == SPE) m = new MatrixSparse(r.nr, r.nc, 1);
  else m = new MatrixSparse(r.nr, r.nc, 0);
  if (kind == SPE || kind == SPC)
  {
    // sparse matrices are built from triplets of the non-zero entries
    NF_Triplet t;
    for (int i = 0; i < r.nr; i++)
      for (int j = 0; j < r.nc; j++)
        if (r.a[i][j] != 0.) t.add(i, j, r.a[i][j]);
    if (r.a[r.nr - 1][r.nc - 1] == 0.) t.force(r.nr, r.nc); // dimensions; never a duplicate triplet
    delete m;
    m = MatrixSparse::createFromTriplet(t, r.nr, r.nc, kind == SPE ? 1 : 0);
  }
  else
  {
    for (int i = 0; i < r.nr; i++)
      for (int j = 0; j < r.nc; j++)
      {
        if (kind == SYM && j > i) continue;
        m->setValue(i, j, r.a[i][j]);
      }
  }
  return m;
}

struct Fail
{
  bool bad = false;
  std::string obs, detail;
  void set(const std::string& o, const std::string& d) { if (!bad) { bad = true; obs = o; detail = d; } }
};

struct State
{
  Ref ref;
  AMatrix* rep[NKIND] = {nullptr, nullptr, nullptr, nullptr, nullptr};
  ~State() { for (auto*& p : rep) delete p; }
  void drop(int k) { delete rep[k]; rep[k] = nullptr; }
  void rebuild(bool withSparse = true)
  {
    for (int k = 0; k < NKIND; k++) drop(k);
    if (ref.nr <= 0 || ref.nc <= 0) return;
    rep[RECT] = buildReplica(RECT, ref);
    if (ref.square()) rep[SQG] = buildReplica(SQG, ref);
    if (ref.symmetric()) rep[SYM] = buildReplica(SYM, ref);
    if (withSparse) { rep[SPE] = buildReplica(SPE, ref); rep[SPC] = buildReplica(SPC, ref); }
  }
};

// Rounding errors made while the matrix held large terms stay (in absolute value) when a later op makes the terms
// small (x + s - s): the tolerance is relative to the largest magnitude the reference went through since its last reset.
double g_histMag = 0.;
double tolOf(double scale) { return 1e-11 * (scale + g_histMag) + 1e-290; }

// compare a matrix with the reference (scale = magnitude bound per entry, or global)
void cmpMatrix(const AMatrix* m, const Ref& r, const Mat* scale, const std::string& who, const std::string& op, Fail& f, bool exact)
{
  if (f.bad || m == nullptr) return;
  if (m->getNRows() != r.nr || m->getNCols() != r.nc)
    return f.set("shape|" + who, op + ": " + std::to_string(m->getNRows()) + "x" + std::to_string(m->getNCols()) + " expected " + std::to_string(r.nr) + "x" + std::to_string(r.nc));
  for (int i = 0; i < r.nr; i++)
    for (int j = 0; j < r.nc; j++)
    {
      double v = m->getValue(i, j);
      double e = r.a[i][j];
      double sc = scale ? (*scale)[i][j] : std::fabs(e);
      bool ok = (v == e || sameBits(v, e)) || (std::fabs(v - e) <= tolOf(sc + std::fabs(e))); (void)exact;
      if (!ok || std::isnan(v) != std::isnan(e))
      {
        char b[200];
        snprintf(b, sizeof b, "%s: entry (%d,%d) is %.17g expected %.17g (shape %dx%d)", op.c_str(), i, j, v, e, r.nr, r.nc);
        return f.set("values|" + who, b);
      }
    }
}
void cmpVector(const VectorDouble& v, const std::vector<double>& e, const std::vector<double>* scale, const std::string& who, const std::string& op, Fail& f, bool exact = false)
{
  if (f.bad) return;
  if (v.size() != e.size()) return f.set("vector-size|" + who, op + ": size " + std::to_string(v.size()) + " expected " + std::to_string(e.size()));
  for (size_t i = 0; i < e.size(); i++)
  {
    double sc = scale ? (*scale)[i] : std::fabs(e[i]);
    bool ok = (v[i] == e[i]) || (std::fabs(v[i] - e[i]) <= tolOf(sc + std::fabs(e[i]))); (void)exact;
    if (!ok)
    {
      char b[200];
      snprintf(b, sizeof b, "%s: element %zu is %.17g expected %.17g", op.c_str(), i, v[i], e[i]);
      return f.set("vector|" + who, b);
    }
  }
}

double gen(Rng& r, int flavour)
{
  switch (flavour % 4)
  {
    case 0: return (double)r.range(-4, 4);
    case 1: return r.uniform(-3, 3);
    case 2: return r.chance(0.5) ? 0. : r.uniform(0.5, 2.) * (r.chance(0.5) ? 1 : -1);
    default: return r.gauss() * 10.;
  }
}
std::vector<double> genVec(Rng& r, int n, int flavour, bool nonzero = false)
{
  std::vector<double> v(n);
  for (auto& x : v)
  {
    x = gen(r, flavour);
    if (nonzero && std::fabs(x) < 0.25) x = 1.5;
  }
  return v;
}
VectorDouble VD(const std::vector<double>& v) { return VectorDouble(v.begin(), v.end()); }

void fillRef(Ref& R, Rng& r, int nr, int nc, int flavour, int structure)
{
  R.reshape(nr, nc);
  for (int i = 0; i < nr; i++)
    for (int j = 0; j < nc; j++) R.a[i][j] = gen(r, flavour);
  {
    // a matrix without any non-zero term has an empty sparse pattern: kept out of random generation
    // (the sparse back-ends dereference null arrays there: canary finding, see findings/C11)
    bool any = false;
    for (auto& rr : R.a) for (double x : rr) if (x != 0.) any = true;
    if (!any) R.a[0][0] = 1.5;
  }
  if (structure == 1 && nr == nc) // symmetric
    for (int i = 0; i < nr; i++) for (int j = 0; j < i; j++) R.a[i][j] = R.a[j][i];
  if (structure == 2 && nr == nc) // symmetric positive definite, well conditioned
  {
    for (int i = 0; i < nr; i++) for (int j = 0; j < i; j++) R.a[i][j] = R.a[j][i] = 0.3 * R.a[j][i] / (1. + std::fabs(R.a[j][i]));
    for (int i = 0; i < nr; i++) R.a[i][i] = 1. + nr * 0.35 + std::fabs(R.a[i][i]) * 0.1;
  }
  if (structure == 3 && nr == nc) // diagonally dominant general
  {
    for (int i = 0; i < nr; i++)
    {
      double s = 0;
      for (int j = 0; j < nc; j++) if (j != i) { R.a[i][j] = R.a[i][j] / (1. + std::fabs(R.a[i][j])); s += std::fabs(R.a[i][j]); }
      R.a[i][i] = s + 1. + (i % 3);
    }
  }
}

// naive products in long double
Ref prodRef(const Ref& X, bool tx, const Ref& Y, bool ty, Mat* scale)
{
  int n1 = tx ? X.nc : X.nr, m1 = tx ? X.nr : X.nc, n2 = ty ? Y.nr : Y.nc;
  Ref C;
  C.reshape(n1, n2);
  if (scale) scale->assign(n1, std::vector<double>(n2, 0.));
  for (int i = 0; i < n1; i++)
    for (int j = 0; j < n2; j++)
    {
      long double s = 0, sa = 0;
      for (int k = 0; k < m1; k++)
      {
        long double a = tx ? X.a[k][i] : X.a[i][k];
        long double b = ty ? Y.a[j][k] : Y.a[k][j];
        s += a * b;
        sa += fabsl(a * b);
      }
      C.a[i][j] = (double)s;
      if (scale) (*scale)[i][j] = (double)sa;
    }
  return C;
}
// Gauss-Jordan inverse in long double; returns false if pivot too small
bool invertRef(const Ref& A, Ref& inv)
{
  int n = A.nr;
  std::vector<std::vector<long double>> w(n, std::vector<long double>(2 * n, 0));
  for (int i = 0; i < n; i++) { for (int j = 0; j < n; j++) w[i][j] = A.a[i][j]; w[i][n + i] = 1; }
  for (int c = 0; c < n; c++)
  {
    int p = c;
    for (int i = c + 1; i < n; i++) if (fabsl(w[i][c]) > fabsl(w[p][c])) p = i;
    if (fabsl(w[p][c]) < 1e-8) return false;
    std::swap(w[p], w[c]);
    long double d = w[c][c];
    for (int j = 0; j < 2 * n; j++) w[c][j] /= d;
    for (int i = 0; i < n; i++)
      if (i != c)
      {
        long double fct = w[i][c];
        if (fct == 0) continue;
        for (int j = 0; j < 2 * n; j++) w[i][j] -= fct * w[c][j];
      }
  }
  inv.reshape(n, n);
  for (int i = 0; i < n; i++) for (int j = 0; j < n; j++) inv.a[i][j] = (double)w[i][n + j];
  return true;
}

const char* OPS[] = {"reset",        "setvalue",   "addvalue",     "setrow",       "setcolumn",   "setdiagonal", "setdiagconst", "setidentity",
                     "fill",         "addscalar",  "addscalardiag", "prodscalar",  "multiplyrow", "multiplycol", "dividerow",    "dividecol",
                     "transpose",    "addmat",     "lincomb",      "matvec",       "vecmat",      "getters",     "matmat",       "prodmatinplace",
                     "normmatmat",   "normmatvec", "copyreduce",   "invert",       "solve",       "cholesky",    "eigen",        "threads",
                     "sparseflag",   "vecops",     "sparse-special", "copyindep",  "matmat-alias", "sparse-assign", "vecops"};
const int NOPS = 39;

struct Exec
{
  State S;
  Ctx* c;
  int threads = 1;
  Fail f;

  void cmpAll(const std::string& op, const Mat* scale, bool exact)
  {
    for (int k = 0; k < NKIND && !f.bad; k++) cmpMatrix(S.rep[k], S.ref, scale, KN[k], op, f, exact);
  }
  bool hasZero() const
  {
    for (auto& rr : S.ref.a) for (double x : rr) if (x == 0.) return true;
    return false;
  }
  void dropSparse() { S.drop(SPE); S.drop(SPC); }
  // Sparse storages keep a fixed pattern of stored terms and (by their documentation) write only there:
  // an op that writes into, or creates, structural zeros is applied to the sparse replicas only while
  // every entry is stored; otherwise they leave the group until the next re-creation.
  void beforeWrite() { if (hasZero()) dropSparse(); }
  void afterWrite() { if (hasZero()) dropSparse(); }

  bool step(long idx, const Op& op)
  {
    const std::string& k = op.kind;
    Rng r(hstr(k) * 31 + (uint64_t)op.I(9, 1) * 1000003ULL + (uint64_t)idx);
    c->begin(idx, k);
    Ref& R = S.ref;
    long regions0 = g_parRegions;
    for (auto& row : R.a) for (double x : row) if (std::isfinite(x) && std::fabs(x) > g_histMag) g_histMag = std::fabs(x);
    if (k == "reset")
    {
      int cls = (int)(op.I(0) % 10);
      int nr, nc;
      int N = 1 + (int)(op.I(1) % 12), M = 1 + (int)(op.I(2) % 12);
      bool large = (op.I(3) % 7) == 0;
      if (large) { N = 64 + (int)(op.I(1) % 96); M = 64 + (int)(op.I(2) % 96); }
      if (cls <= 2) { nr = N; nc = N; }
      else if (cls == 3) { nr = 1; nc = N; }
      else if (cls == 4) { nr = N; nc = 1; }
      else { nr = N; nc = M; }
      int structure = (nr == nc) ? (int)(op.I(4) % 4) : 0;
      fillRef(R, r, nr, nc, (int)op.I(5), structure);
      g_histMag = 0.;
      {
        // overall magnitude: results must not depend on absolute thresholds (an inverse of 1e8*A has terms near 1e-8)
        static const double SCALE[] = {1., 1., 1., 1., 1e8, 1e-8, 1e4, 1e-4};
        double sc = SCALE[(size_t)(op.I(8, 0) % 8)];
        if (sc != 1.)
        {
          for (auto& row : R.a) for (auto& x : row) x *= sc;
          c->fp(sc > 1. ? "scale:large" : "scale:small");
        }
      }
      S.rebuild(!large || (op.I(6) % 2 == 0));
      c->fp(std::string("shape:") + (large ? "large" : (nr == nc ? "square" : (nr == 1 ? "row" : (nc == 1 ? "col" : "rect")))) + ":s" + std::to_string(structure));
      cmpAll(k, nullptr, true);
    }
    else if (R.nr == 0)
    {
      c->end(idx, "empty");
      return true;
    }
    else if (k == "setvalue" || k == "addvalue")
    {
      int i = (int)(op.I(0) % R.nr), j = (int)(op.I(1) % R.nc);
      double v = gen(r, (int)op.I(2));
      bool bad = false; // ill-formed designations are outside C11's quantifier (shapes, values, flags)
      beforeWrite();
      if (bad)
      {
        // out-of-range designation: must be refused, content unchanged
        for (int q = 0; q < NKIND; q++) if (S.rep[q]) { if (k == "setvalue") S.rep[q]->setValue(R.nr + 2, j, v); else S.rep[q]->addValue(i, R.nc + 1, v); }
        c->count("fault.index-out-of-range");
      }
      else
      {
        bool symPair = S.rep[SYM] != nullptr; // keep the symmetric replica in the group: mirror the write
        for (int q = 0; q < NKIND; q++)
        {
          if (!S.rep[q]) continue;
          if (k == "setvalue") S.rep[q]->setValue(i, j, v); else S.rep[q]->addValue(i, j, v);
          if (symPair && i != j && q != SYM) { if (k == "setvalue") S.rep[q]->setValue(j, i, v); else S.rep[q]->addValue(j, i, v); }
        }
        if (k == "setvalue") R.a[i][j] = v; else R.a[i][j] += v;
        if (symPair && i != j) { if (k == "setvalue") R.a[j][i] = v; else R.a[j][i] += v; }
      }
      afterWrite();
      cmpAll(k, nullptr, k == "setvalue" || bad);
    }
    else if (k == "setrow" || k == "setcolumn" || k == "setdiagonal")
    {
      bool row = k == "setrow", diag = k == "setdiagonal";
      int idxv = (int)(op.I(0) % (row ? R.nr : R.nc));
      int len = diag ? std::min(R.nr, R.nc) : (row ? R.nc : R.nr);
      bool wrong = false;
      beforeWrite();
      if (diag && !R.square()) { c->end(idx, "skip"); return true; }
      if (diag && R.nr > 1) dropSparse(); // setDiagonal zeroes the off-diagonal terms
      std::vector<double> v = genVec(r, len + (wrong ? 1 : 0), (int)op.I(1));
      if (wrong) c->count("fault.size-mismatch");
      for (int q = 0; q < NKIND; q++)
      {
        if (!S.rep[q]) continue;
        if (q == SYM && !diag && !wrong) continue;
        if (row) S.rep[q]->setRow(idxv, VD(v)); else if (diag) S.rep[q]->setDiagonal(VD(v)); else S.rep[q]->setColumn(idxv, VD(v));
      }
      if (!wrong)
      {
        if (row) for (int j = 0; j < R.nc; j++) R.a[idxv][j] = v[j];
        else if (diag) { for (int i = 0; i < R.nr; i++) for (int j = 0; j < R.nc; j++) R.a[i][j] = (i == j) ? v[i] : 0.; }
        else for (int i = 0; i < R.nr; i++) R.a[i][idxv] = v[i];
        if (!diag) S.drop(SYM);
      }
      afterWrite();
      cmpAll(k, nullptr, true);
    }
    else if (k == "setdiagconst" || k == "setidentity" || k == "fill" || k == "addscalar" || k == "addscalardiag" || k == "prodscalar")
    {
      double v = gen(r, (int)op.I(0));
      if (v == 0. && k == "prodscalar") v = 2.;
      if ((k == "setdiagconst" || k == "setidentity" || k == "addscalardiag") && !R.square()) { c->end(idx, "skip"); return true; }
      if (k != "prodscalar") beforeWrite();
      if ((k == "setdiagconst" || k == "setidentity") && R.nr > 1) dropSparse(); // creates structural zeros
      for (int q = 0; q < NKIND; q++)
      {
        if (!S.rep[q]) continue;
        if (k == "setdiagconst") S.rep[q]->setDiagonalToConstant(v);
        else if (k == "setidentity") S.rep[q]->setIdentity(v);
        else if (k == "fill") S.rep[q]->fill(v);
        else if (k == "addscalar") S.rep[q]->addScalar(v);
        else if (k == "addscalardiag") S.rep[q]->addScalarDiag(v);
        else S.rep[q]->prodScalar(v);
      }
      for (int i = 0; i < R.nr; i++)
        for (int j = 0; j < R.nc; j++)
        {
          double& x = R.a[i][j];
          if (k == "setdiagconst" || k == "setidentity") x = (i == j) ? v : 0.;
          else if (k == "fill") x = v;
          else if (k == "addscalar") x += v;
          else if (k == "addscalardiag") { if (i == j) x += v; }
          else x *= v;
        }
      afterWrite();
      cmpAll(k, nullptr, false);
    }
    else if (k == "multiplyrow" || k == "multiplycol" || k == "dividerow" || k == "dividecol")
    {
      bool row = k.find("row") != std::string::npos, mul = k.rfind("multiply", 0) == 0;
      int len = row ? R.nr : R.nc;
      bool wrong = false;
      if (wrong) { len = row ? R.nc : R.nr; c->count("fault.size-mismatch"); }
      std::vector<double> v = genVec(r, len, (int)op.I(0), true);
      for (int q = 0; q < NKIND; q++)
      {
        if (!S.rep[q] || q == SYM) continue;
        if (row && mul) S.rep[q]->multiplyRow(VD(v));
        else if (row) S.rep[q]->divideRow(VD(v));
        else if (mul) S.rep[q]->multiplyColumn(VD(v));
        else S.rep[q]->divideColumn(VD(v));
      }
      if (!wrong)
      {
        for (int i = 0; i < R.nr; i++)
          for (int j = 0; j < R.nc; j++)
          {
            double s = row ? v[i] : v[j];
            if (mul) R.a[i][j] *= s; else R.a[i][j] /= s;
          }
        S.drop(SYM);
      }
      cmpAll(k, nullptr, false);
    }
    else if (k == "transpose")
    {
      bool viaCopy = op.I(0) % 2 == 1;
      for (int q = 0; q < NKIND; q++)
      {
        if (!S.rep[q]) continue;
        if (viaCopy)
        {
          AMatrix* t = S.rep[q]->transpose();
          Ref T;
          T.reshape(R.nc, R.nr);
          for (int i = 0; i < R.nr; i++) for (int j = 0; j < R.nc; j++) T.a[j][i] = R.a[i][j];
          cmpMatrix(t, T, nullptr, KN[q], "transpose()", f, true);
          delete t;
        }
        else S.rep[q]->transposeInPlace();
      }
      if (!viaCopy)
      {
        Ref T;
        T.reshape(R.nc, R.nr);
        for (int i = 0; i < R.nr; i++) for (int j = 0; j < R.nc; j++) T.a[j][i] = R.a[i][j];
        R = T;
      }
      cmpAll(k, nullptr, true);
    }
    else if (k == "addmat" || k == "lincomb")
    {
      Ref B;
      fillRef(B, r, R.nr, R.nc, (int)op.I(0), S.rep[SYM] ? 1 : 0);
      double cx = gen(r, 1), cy = gen(r, 1);
      int bk = (int)(op.I(1) % 3); // storage of the second operand
      AMatrix* Bm = buildReplica(bk == 0 ? RECT : (bk == 1 ? SPE : SPC), B);
      Mat scale(R.nr, std::vector<double>(R.nc, 0.));
      for (int i = 0; i < R.nr; i++) for (int j = 0; j < R.nc; j++) scale[i][j] = std::fabs(cx * R.a[i][j]) + std::fabs(cy * B.a[i][j]);
      for (int q = 0; q < NKIND; q++)
      {
        if (!S.rep[q]) continue;
        // sparse replicas combine with sparse operands of their own back-end, dense ones with any storage
        AMatrix* Bq = Bm;
        AMatrix* own = nullptr;
        if (q == SPE || q == SPC) { own = buildReplica(q, B); Bq = own; }
        if (q == SYM) { own = buildReplica(SYM, B); Bq = own; }
        if (k == "addmat")
        {
          // generic AMatrix implementation on a copy, storage-specific overload on the replica itself
          bool sparseQ = (q == SPE || q == SPC);
          if (!sparseQ)
          {
            AMatrix* A0 = buildReplica(q, R);
            A0->addMatInPlace(*Bq, cx, cy);
            Ref E = R;
            for (int i = 0; i < R.nr; i++) for (int j = 0; j < R.nc; j++) E.a[i][j] = cx * R.a[i][j] + cy * B.a[i][j];
            cmpMatrix(A0, E, &scale, std::string(KN[q]) + "(generic)", "AMatrix::addMatInPlace", f, false);
            delete A0;
          }
          AMatrixDense* dq = dynamic_cast<AMatrixDense*>(S.rep[q]);
          AMatrixDense* db = dynamic_cast<AMatrixDense*>(Bq);
          MatrixSparse* sq = dynamic_cast<MatrixSparse*>(S.rep[q]);
          MatrixSparse* sb = dynamic_cast<MatrixSparse*>(Bq);
          if (dq && db) dq->addMatInPlace(*db, cx, cy);
          else if (sq && sb) sq->addMatInPlace(*sb, cx, cy);
          else S.rep[q]->addMatInPlace(*Bq, cx, cy);
        }
        else
        {
          bool sparseQ = (q == SPE || q == SPC);
          bool full = !hasZero();
          for (auto& rr : B.a) for (double x : rr) if (x == 0.) full = false;
          if (sparseQ && !full) { S.drop(q); delete own; continue; }
          AMatrix* A0 = buildReplica(q, R);
          S.rep[q]->linearCombination(cx, A0, cy, Bq);
          delete A0;
        }
        delete own;
      }
      delete Bm;
      for (int i = 0; i < R.nr; i++) for (int j = 0; j < R.nc; j++) R.a[i][j] = cx * R.a[i][j] + cy * B.a[i][j];
      cmpAll(k, &scale, false);
    }
    else if (k == "matvec" || k == "vecmat")
    {
      bool tr = op.I(0) % 2 == 1;
      bool mv = k == "matvec";
      // y = A x (or t(A) x) ; y = x A (or x t(A))
      int nin = mv ? (tr ? R.nr : R.nc) : (tr ? R.nc : R.nr);
      int nout = mv ? (tr ? R.nc : R.nr) : (tr ? R.nr : R.nc);
      std::vector<double> x = genVec(r, nin, (int)op.I(1));
      std::vector<double> e(nout, 0.), sc(nout, 0.);
      for (int o = 0; o < nout; o++)
      {
        long double s = 0, sa = 0;
        for (int i = 0; i < nin; i++)
        {
          double aij;
          if (mv) aij = tr ? R.a[i][o] : R.a[o][i];
          else aij = tr ? R.a[o][i] : R.a[i][o];
          s += (long double)aij * x[i];
          sa += fabsl((long double)aij * x[i]);
        }
        e[o] = (double)s;
        sc[o] = (double)sa;
      }
      for (int q = 0; q < NKIND && !f.bad; q++)
      {
        if (!S.rep[q]) continue;
        VectorDouble y = mv ? S.rep[q]->prodMatVec(VD(x), tr) : S.rep[q]->prodVecMat(VD(x), tr);
        cmpVector(y, e, &sc, KN[q], k + (tr ? "(transpose)" : ""), f);
      }
    }
    else if (k == "getters")
    {
      int i = (int)(op.I(0) % R.nr), j = (int)(op.I(1) % R.nc);
      int shift = (int)(op.I(2) % 5) - 2;
      for (int q = 0; q < NKIND && !f.bad; q++)
      {
        if (!S.rep[q]) continue;
        std::vector<double> row(R.a[i]);
        std::vector<double> col(R.nr);
        for (int a = 0; a < R.nr; a++) col[a] = R.a[a][j];
        cmpVector(S.rep[q]->getRow(i), row, nullptr, KN[q], "getRow", f, true);
        cmpVector(S.rep[q]->getColumn(j), col, nullptr, KN[q], "getColumn", f, true);
        std::vector<double> byc, byr;
        for (int b = 0; b < R.nc; b++) for (int a = 0; a < R.nr; a++) byc.push_back(R.a[a][b]);
        for (int a = 0; a < R.nr; a++) for (int b = 0; b < R.nc; b++) byr.push_back(R.a[a][b]);
        cmpVector(S.rep[q]->getValues(true), byc, nullptr, KN[q], "getValues(byCol)", f, true);
        cmpVector(S.rep[q]->getValues(false), byr, nullptr, KN[q], "getValues(byRow)", f, true);
        if (R.square())
        {
          std::vector<double> dg;
          // the sign convention of 'shift' is not documented: the implementation's choice is adopted
          // (entry (rank + min(shift,0), rank + max(shift,0)) for every rank where both indices are valid)
          for (int a = 0; a < R.nr; a++)
          {
            int ir = a + std::min(shift, 0), ic = a + std::max(shift, 0);
            if (ir < 0 || ir >= R.nr || ic < 0 || ic >= R.nc) continue;
            dg.push_back(R.a[ir][ic]);
          }
          cmpVector(S.rep[q]->getDiagonal(shift), dg, nullptr, KN[q], "getDiagonal(" + std::to_string(shift) + ")", f, true);
        }
        double mn = 1e300, mx = -1e300;
        for (auto& rr : R.a) for (double x : rr) { mn = std::min(mn, x); mx = std::max(mx, x); }
        if (q != SPE && q != SPC)
        {
          if (std::fabs(S.rep[q]->getMinimum() - mn) > tolOf(std::fabs(mn))) f.set(std::string("scalar|") + KN[q], "getMinimum " + std::to_string(S.rep[q]->getMinimum()) + " expected " + std::to_string(mn));
          if (std::fabs(S.rep[q]->getMaximum() - mx) > tolOf(std::fabs(mx))) f.set(std::string("scalar|") + KN[q], "getMaximum " + std::to_string(S.rep[q]->getMaximum()) + " expected " + std::to_string(mx));
        }
      }
    }
    else if (k == "matmat" || k == "prodmatinplace")
    {
      bool tx = op.I(0) % 2 == 1, ty = (op.I(0) / 2) % 2 == 1;
      if (k == "prodmatinplace") tx = false;
      // Y shaped so that op(X) op(Y) is defined, X = current matrix
      int inner = tx ? R.nr : R.nc;
      int other = 1 + (int)(op.I(1) % 9);
      if (R.nr > 40) other = 64 + (int)(op.I(1) % 40);
      if (k == "prodmatinplace" && !(R.square())) { other = inner; }
      Ref Y;
      if (ty) fillRef(Y, r, other, inner, (int)op.I(2), 0); else fillRef(Y, r, inner, other, (int)op.I(2), 0);
      Mat scale;
      Ref C = prodRef(R, tx, Y, ty, &scale);
      int yk = (int)(op.I(3) % 3);
      for (int q = 0; q < NKIND && !f.bad; q++)
      {
        if (!S.rep[q]) continue;
        if (q == SYM || q == SQG) { if (k == "prodmatinplace") continue; }
        bool sp = (q == SPE || q == SPC);
        AMatrix* Yq = buildReplica(sp ? q : (yk == 0 ? RECT : (yk == 1 ? SPE : SPC)), Y);
        if (k == "matmat")
        {
          AMatrix* Cq = sp ? (AMatrix*)new MatrixSparse(C.nr, C.nc, q == SPE ? 1 : 0) : (AMatrix*)new MatrixRectangular(C.nr, C.nc);
          Cq->prodMatMatInPlace(S.rep[q], Yq, tx, ty);
          cmpMatrix(Cq, C, &scale, KN[q], std::string("prodMatMatInPlace(") + (tx ? "tX," : "X,") + (ty ? "tY)" : "Y)"), f, false);
          delete Cq;
        }
        else
        {
          if (C.nr == R.nr && C.nc == R.nc)
          {
            AMatrix* A2 = buildReplica(q, R);
            A2->prodMatInPlace(Yq, ty);
            cmpMatrix(A2, C, &scale, KN[q], std::string("prodMatInPlace(") + (ty ? "tY)" : "Y)"), f, false);
            delete A2;
          }
        }
        delete Yq;
      }
    }
    else if (k == "normmatmat" || k == "normmatvec")
    {
      // this = t(A) M A (transpose) or A M t(A): A is the current matrix
      bool tr = op.I(0) % 2 == 1;
      int n1 = tr ? R.nc : R.nr, n2 = tr ? R.nr : R.nc;
      if (n1 > 20 || n2 > 20) { c->end(idx, "skip-large"); return true; }
      Ref M;
      fillRef(M, r, n2, n2, (int)op.I(1), 1);
      std::vector<double> dv = genVec(r, n2, (int)op.I(1));
      bool withVec = op.I(2) % 2 == 0;
      Ref C;
      C.reshape(n1, n1);
      Mat scale(n1, std::vector<double>(n1, 0.));
      for (int i = 0; i < n1; i++)
        for (int j = 0; j < n1; j++)
        {
          long double s = 0, sa = 0;
          for (int a = 0; a < n2; a++)
            for (int b = 0; b < n2; b++)
            {
              double m = (k == "normmatmat") ? M.a[a][b] : ((a == b) ? (withVec ? dv[a] : 1.) : 0.);
              if (m == 0.) continue;
              long double aia = tr ? R.a[a][i] : R.a[i][a];
              long double ajb = tr ? R.a[b][j] : R.a[j][b];
              s += aia * m * ajb;
              sa += fabsl(aia * m * ajb);
            }
          C.a[i][j] = (double)s;
          scale[i][j] = (double)sa;
        }
      for (int q = 0; q < NKIND && !f.bad; q++)
      {
        if (!S.rep[q] || q == SYM || q == SQG) continue;
        bool sp = (q == SPE || q == SPC);
        if (sp) continue; // congruence products of the sparse class have their own entry points (sparse-special)
        MatrixSquareSymmetric out(n1);
        MatrixSquareGeneral outg(n1);
        AMatrixDense* dq = dynamic_cast<AMatrixDense*>(S.rep[q]);
        if (k == "normmatmat")
        {
          AMatrix* Mq = buildReplica(SYM, M);
          AMatrixDense* dm = dynamic_cast<AMatrixDense*>(Mq);
          out.prodNormMatMatInPlace(dq, dm, tr);                              // Eigen-backed dense kernel
          static_cast<AMatrix&>(outg).prodNormMatMatInPlace(S.rep[q], Mq, tr); // generic fall-back
          delete Mq;
        }
        else
        {
          out.prodNormMatVecInPlace(*dq, withVec ? VD(dv) : VectorDouble(), tr);
          static_cast<AMatrix&>(outg).prodNormMatVecInPlace(*S.rep[q], withVec ? VD(dv) : VectorDouble(), tr);
        }
        cmpMatrix(&out, C, &scale, std::string(KN[q]) + "->symmetric", k + (tr ? "(transpose)" : ""), f, false);
        cmpMatrix(&outg, C, &scale, std::string(KN[q]) + "->general", k + (tr ? "(transpose)" : ""), f, false);
      }
    }
    else if (k == "copyreduce")
    {
      VectorInt rows, cols;
      for (int i = 0; i < R.nr; i++) if ((op.I(0) >> (i % 20)) & 1 || i == 0) rows.push_back(i);
      for (int j = 0; j < R.nc; j++) if ((op.I(1) >> (j % 20)) & 1 || j == 0) cols.push_back(j);
      Ref C;
      C.reshape((int)rows.size(), (int)cols.size());
      for (size_t i = 0; i < rows.size(); i++) for (size_t j = 0; j < cols.size(); j++) C.a[i][j] = R.a[rows[i]][cols[j]];
      for (int q = 0; q < NKIND && !f.bad; q++)
      {
        if (!S.rep[q] || q == SYM || q == SQG) continue;
        if (q == RECT)
        {
          MatrixRectangular out((int)rows.size(), (int)cols.size());
          out.copyReduce(S.rep[q], rows, cols);
          cmpMatrix(&out, C, nullptr, KN[q], "copyReduce", f, true);
        }
        else
        {
          MatrixSparse* sp = dynamic_cast<MatrixSparse*>(S.rep[q]);
          VectorInt mapr(R.nr, -1), mapc(R.nc, -1);
          for (size_t i = 0; i < rows.size(); i++) mapr[rows[i]] = (int)i;
          for (size_t j = 0; j < cols.size(); j++) mapc[cols[j]] = (int)j;
          MatrixSparse* out = sp->extractSubmatrixByRanks(mapr, mapc);
          // the result is dimensioned by its last stored term: compared when that is the full sub-shape
          if (out && out->getNRows() == C.nr && out->getNCols() == C.nc) cmpMatrix(out, C, nullptr, KN[q], "extractSubmatrixByRanks", f, true);
          delete out;
        }
      }
    }
    else if (k == "invert" || k == "solve")
    {
      if (!R.square() || R.nr > 40) { c->end(idx, "skip"); return true; }
      Ref inv;
      bool regular = invertRef(R, inv);
      double amax = 0, imax = 0;
      for (auto& rr : R.a) for (double x : rr) amax = std::max(amax, std::fabs(x));
      if (regular) for (auto& rr : inv.a) for (double x : rr) imax = std::max(imax, std::fabs(x));
      bool wellCond = regular && amax * imax * R.nr < 1e5;
      if (!wellCond) { c->count("skipped.illcond"); c->end(idx, "skip-illcond"); return true; }
      std::vector<double> b = genVec(r, R.nr, (int)op.I(0));
      // sparse inversion and solve are Cholesky based (SimplicialLLT / cs_cholsol): symmetric positive definite input only
      bool spd = R.symmetric();
      if (spd)
      {
        int n = R.nr;
        std::vector<std::vector<long double>> L(n, std::vector<long double>(n, 0));
        for (int i = 0; i < n && spd; i++)
          for (int j = 0; j <= i; j++)
          {
            long double sm = R.a[i][j];
            for (int qq = 0; qq < j; qq++) sm -= L[i][qq] * L[j][qq];
            if (i == j) { if (sm <= 1e-6) { spd = false; break; } L[i][i] = sqrtl(sm); }
            else L[i][j] = sm / L[j][j];
          }
      }
      for (int q = 0; q < NKIND && !f.bad; q++)
      {
        if (!S.rep[q] || q == RECT) continue;
        if ((q == SPE || q == SPC) && !spd) continue;
        if (k == "invert")
        {
          AMatrix* A2 = buildReplica(q, R);
          int err = A2->invert();
          if (err) f.set(std::string("invert-refused|") + KN[q], "invert() failed on a well conditioned matrix");
          else
            for (int i = 0; i < R.nr && !f.bad; i++)
              for (int j = 0; j < R.nc; j++)
                if (std::fabs(A2->getValue(i, j) - inv.a[i][j]) > 1e-8 * imax)
                {
                  char bb[160];
                  snprintf(bb, sizeof bb, "invert: entry (%d,%d) %.15g expected %.15g", i, j, A2->getValue(i, j), inv.a[i][j]);
                  f.set(std::string("values|") + KN[q], bb);
                  break;
                }
          delete A2;
        }
        else
        {
          if (q != SYM && q != SPE && q != SPC) continue; // solve is offered for symmetric / sparse storages
          if (!R.symmetric()) continue;
          VectorDouble x(R.nr, 0.);
          int err = S.rep[q]->solve(VD(b), x);
          if (err) { f.set(std::string("solve-refused|") + KN[q], "solve() failed on a well conditioned matrix"); continue; }
          std::vector<double> e(R.nr, 0.);
          for (int i = 0; i < R.nr; i++) { long double s = 0; for (int j = 0; j < R.nc; j++) s += (long double)inv.a[i][j] * b[j]; e[i] = (double)s; }
          double xm = 0;
          for (double v : e) xm = std::max(xm, std::fabs(v));
          if ((int)x.size() != R.nr) f.set(std::string("vector-size|") + KN[q], "solve result size");
          else for (int i = 0; i < R.nr; i++) if (std::fabs(x[i] - e[i]) > 1e-8 * (xm + 1e-300)) { f.set(std::string("vector|") + KN[q], "solve: element " + std::to_string(i)); break; }
        }
      }
    }
    else if (k == "cholesky")
    {
      if (!S.rep[SYM] || R.nr > 40) { c->end(idx, "skip"); return true; }
      // positive definite? (model decides through a naive Cholesky in long double)
      int n = R.nr;
      std::vector<std::vector<long double>> L(n, std::vector<long double>(n, 0));
      bool spd = true;
      for (int i = 0; i < n && spd; i++)
        for (int j = 0; j <= i; j++)
        {
          long double s = R.a[i][j];
          for (int q = 0; q < j; q++) s -= L[i][q] * L[j][q];
          if (i == j) { if (s <= 1e-6) { spd = false; break; } L[i][i] = sqrtl(s); }
          else L[i][j] = s / L[j][j];
        }
      if (!spd) { c->count("skipped.not-spd"); c->end(idx, "skip-not-spd"); return true; }
      long double logdet = 0;
      for (int i = 0; i < n; i++) logdet += 2 * logl(L[i][i]);
      std::vector<double> b = genVec(r, n, (int)op.I(0));
      Ref inv;
      invertRef(R, inv);
      std::vector<double> xs(n, 0.), lx(n, 0.), ltx(n, 0.);
      double xm = 0;
      for (int i = 0; i < n; i++)
      {
        long double s = 0, s1 = 0, s2 = 0;
        for (int j = 0; j < n; j++) { s += (long double)inv.a[i][j] * b[j]; s1 += L[i][j] * b[j]; s2 += L[j][i] * b[j]; }
        xs[i] = (double)s; lx[i] = (double)s1; ltx[i] = (double)s2;
        xm = std::max(xm, std::fabs(xs[i]));
      }
      for (int which = 0; which < 3 && !f.bad; which++)
      {
        ACholesky* ch = nullptr;
        MatrixSparse* spm = nullptr;
        std::string who;
        if (which == 0) { ch = new CholeskyDense(dynamic_cast<MatrixSquareSymmetric*>(S.rep[SYM])); who = "CholeskyDense"; }
        else
        {
          int kk = which == 1 ? SPE : SPC;
          if (!S.rep[kk]) continue;
          spm = dynamic_cast<MatrixSparse*>(S.rep[kk]);
          ch = new CholeskySparse(spm);
          who = which == 1 ? "CholeskySparse(Eigen)" : "CholeskySparse(cs)";
        }
        if (!ch->isReady()) { /* lazily prepared by the first request */ }
        std::vector<double> out(n, 0.);
        VectorDouble bb = VD(b);
        int err = ch->solve(constvect(bb.data(), bb.size()), vect(out.data(), out.size()));
        if (err) f.set("cholesky-refused|" + who, "solve failed on an SPD matrix");
        else
        {
          for (int i = 0; i < n; i++) if (std::fabs(out[i] - xs[i]) > 1e-8 * (xm + 1e-300)) { f.set("vector|" + who, "Cholesky solve: element " + std::to_string(i) + " is " + std::to_string(out[i]) + " expected " + std::to_string(xs[i])); break; }
          double ld = ch->computeLogDeterminant();
          if (std::fabs(ld - (double)logdet) > 1e-8 * (1 + std::fabs((double)logdet))) f.set("scalar|" + who, "log-determinant " + std::to_string(ld) + " expected " + std::to_string((double)logdet));
          if (which == 0)
          {
            std::vector<double> o1(n, 0.), o2(n, 0.);
            ch->LX(constvect(bb.data(), bb.size()), vect(o1.data(), o1.size()));
            ch->LtX(constvect(bb.data(), bb.size()), vect(o2.data(), o2.size()));
            double sc = 0;
            for (double v : lx) sc = std::max(sc, std::fabs(v));
            for (double v : ltx) sc = std::max(sc, std::fabs(v));
            for (int i = 0; i < n && !f.bad; i++)
            {
              if (std::fabs(o1[i] - lx[i]) > 1e-8 * (sc + 1e-300)) f.set("vector|" + who, "LX element " + std::to_string(i));
              if (std::fabs(o2[i] - ltx[i]) > 1e-8 * (sc + 1e-300)) f.set("vector|" + who, "LtX element " + std::to_string(i));
            }
          }
        }
        delete ch;
      }
    }
    else if (k == "eigen")
    {
      if (!S.rep[SYM] || R.nr > 30) { c->end(idx, "skip"); return true; }
      MatrixSquareSymmetric* sm = dynamic_cast<MatrixSquareSymmetric*>(buildReplica(SYM, R));
      int err = sm->computeEigen();
      if (err) f.set("eigen-refused|MatrixSquareSymmetric", "computeEigen failed");
      else
      {
        VectorDouble ev = sm->getEigenValues();
        const MatrixSquareGeneral* V = sm->getEigenVectors();
        int n = R.nr;
        double amax = 0;
        for (auto& rr : R.a) for (double x : rr) amax = std::max(amax, std::fabs(x));
        if ((int)ev.size() != n || V == nullptr || V->getNRows() != n) f.set("eigen-shape|MatrixSquareSymmetric", "sizes");
        else
        {
          // A v = lambda v for each column, and orthonormality
          for (int q = 0; q < n && !f.bad; q++)
          {
            for (int i = 0; i < n; i++)
            {
              long double s = 0;
              for (int j = 0; j < n; j++) s += (long double)R.a[i][j] * V->getValue(j, q);
              if (fabsl(s - (long double)ev[q] * V->getValue(i, q)) > 1e-8 * (amax * n + 1e-300)) { f.set("eigen-residual|MatrixSquareSymmetric", "A v != lambda v for vector " + std::to_string(q)); break; }
            }
            for (int p = 0; p <= q && !f.bad; p++)
            {
              long double s = 0;
              for (int i = 0; i < n; i++) s += (long double)V->getValue(i, p) * V->getValue(i, q);
              if (fabsl(s - (p == q ? 1 : 0)) > 1e-8) f.set("eigen-orthonormal|MatrixSquareSymmetric", "vectors " + std::to_string(p) + "," + std::to_string(q));
            }
          }
        }
      }
      delete sm;
    }
    else if (k == "threads")
    {
      static const int choices[] = {1, 2, 3, 4, 8, 16};
      threads = choices[op.I(0) % 6];
      setMultiThread(threads);
      c->fp("threads=" + std::to_string(threads));
      c->count("knob.threads." + std::to_string(threads));
    }
    else if (k == "sparseflag")
    {
      // the global default back-end changes for matrices created afterwards; existing ones keep theirs
      setGlobalFlagEigen(op.I(0) % 2 == 0);
      MatrixSparse probe(2, 2);
      if (probe.isFlagEigen() != (op.I(0) % 2 == 0)) f.set("sparse-default|MatrixSparse", "a matrix created after setGlobalFlagEigen does not follow it");
      MatrixSparse* e = dynamic_cast<MatrixSparse*>(S.rep[SPE]);
      MatrixSparse* cs = dynamic_cast<MatrixSparse*>(S.rep[SPC]);
      if (e && !e->isFlagEigen()) f.set("sparse-default|MatrixSparse", "existing Eigen matrix changed back-end");
      if (cs && cs->isFlagEigen()) f.set("sparse-default|MatrixSparse", "existing cs matrix changed back-end");
      c->fp("sparseflag");
      cmpAll(k, nullptr, true);
    }
    else if (k == "sparse-special")
    {
      // diagVec / diagConstant / extractDiag / scaleByDiag-free checks on both back-ends
      int n = 1 + (int)(op.I(0) % 8);
      std::vector<double> dv = genVec(r, n, (int)op.I(1), true);
      for (int be = 0; be < 2 && !f.bad; be++)
      {
        MatrixSparse* D = MatrixSparse::diagVec(VD(dv), be);
        Ref E;
        E.reshape(n, n);
        for (int i = 0; i < n; i++) E.a[i][i] = dv[i];
        cmpMatrix(D, E, nullptr, be ? KN[SPE] : KN[SPC], "diagVec", f, true);
        delete D;
        MatrixSparse* C = MatrixSparse::diagConstant(n, dv[0], be);
        for (int i = 0; i < n; i++) E.a[i][i] = dv[0];
        cmpMatrix(C, E, nullptr, be ? KN[SPE] : KN[SPC], "diagConstant", f, true);
        delete C;
      }
      for (int q : {SPE, SPC})
      {
        MatrixSparse* sp = dynamic_cast<MatrixSparse*>(S.rep[q]);
        if (!sp || !R.square()) continue;
        std::vector<double> dg(R.nr);
        for (int i = 0; i < R.nr; i++) dg[i] = R.a[i][i];
        cmpVector(sp->extractDiag(1), dg, nullptr, KN[q], "extractDiag", f, true);
      }
    }
    else if (k == "matmat-alias")
    {
      // products whose destination is one of the operands (first, second, or both)
      if (!R.square() || R.nr > 40) { c->end(idx, "skip"); return true; }
      bool tx = op.I(0) % 2 == 1, ty = (op.I(0) / 2) % 2 == 1;
      int which = (int)(op.I(1) % 3);
      Ref B;
      fillRef(B, r, R.nr, R.nc, (int)op.I(2), 0);
      for (int q : {RECT, SQG})
      {
        if (!S.rep[q] || f.bad) continue;
        AMatrix* A2 = buildReplica(q, R);
        AMatrix* Bq = buildReplica(q, B);
        Mat scale;
        Ref C;
        if (which == 0) { C = prodRef(R, tx, B, ty, &scale); A2->prodMatMatInPlace(A2, Bq, tx, ty); }
        else if (which == 1) { C = prodRef(B, tx, R, ty, &scale); A2->prodMatMatInPlace(Bq, A2, tx, ty); }
        else { C = prodRef(R, tx, R, ty, &scale); A2->prodMatMatInPlace(A2, A2, tx, ty); }
        cmpMatrix(A2, C, &scale, KN[q], std::string("prodMatMatInPlace with the destination as ") + (which == 0 ? "first" : which == 1 ? "second" : "both") + " operand(s)", f, false);
        delete A2;
        delete Bq;
      }
    }
    else if (k == "sparse-assign")
    {
      // assignment and copy between sparse matrices, same and different back-ends
      for (int from : {SPE, SPC})
        for (int to : {SPE, SPC})
        {
          if (f.bad) continue;
          MatrixSparse* src = dynamic_cast<MatrixSparse*>(buildReplica(from, R));
          Ref Z;
          fillRef(Z, r, 1 + (int)(op.I(0) % 5), 1 + (int)(op.I(1) % 5), 1, 0);
          MatrixSparse* dst = dynamic_cast<MatrixSparse*>(buildReplica(to, Z));
          *dst = *src;
          cmpMatrix(dst, R, nullptr, std::string(KN[to]) + "<-" + KN[from], "operator=", f, true);
          // the assigned matrix answers products like its source
          if (!f.bad && R.nc > 0)
          {
            std::vector<double> x = genVec(r, R.nc, 1), e(R.nr, 0.), sc(R.nr, 0.);
            for (int i = 0; i < R.nr; i++) { long double sm = 0, sa = 0; for (int j = 0; j < R.nc; j++) { sm += (long double)R.a[i][j] * x[j]; sa += fabsl((long double)R.a[i][j] * x[j]); } e[i] = (double)sm; sc[i] = (double)sa; }
            cmpVector(dst->prodMatVec(VD(x)), e, &sc, std::string(KN[to]) + "<-" + KN[from], "prodMatVec after operator=", f);
          }
          MatrixSparse cpy(*src);
          cmpMatrix(&cpy, R, nullptr, std::string("copy of ") + KN[from], "copy constructor", f, true);
          delete dst;
          delete src;
        }
    }
    else if (k == "copyindep")
    {
      // copies are independent of their source
      for (int q = 0; q < NKIND && !f.bad; q++)
      {
        if (!S.rep[q]) continue;
        AMatrix* cp = dynamic_cast<AMatrix*>(S.rep[q]->clone());
        cp->prodScalar(3.);
        cp->setValue(0, 0, 123.);
        delete cp;
      }
      cmpAll("copy-then-mutate", nullptr, false);
    }
    else if (k == "vecops")
    {
      int n = 1 + (int)(op.I(0) % 40);
      if (op.I(4) % 4 == 0) n = 250 + (int)(op.I(0) % 500); // long vectors: blocked / threaded reductions
      if (op.I(5) % 3 == 0)
      {
        static const int tc[] = {2, 3, 4, 8, 16, 1};
        threads = tc[op.I(6) % 6];
        setMultiThread(threads);
        c->fp("threads=" + std::to_string(threads));
        c->count("knob.threads." + std::to_string(threads));
      }
      std::vector<double> a = genVec(r, n, (int)op.I(1)), b = genVec(r, n, (int)op.I(2), true);
      VectorDouble va = VD(a), vb = VD(b);
      long double s = 0, sa = 0, ip = 0, ipa = 0, n2 = 0;
      double mn = a[0], mx = a[0];
      for (int i = 0; i < n; i++) { s += a[i]; sa += std::fabs(a[i]); ip += (long double)a[i] * b[i]; ipa += fabsl((long double)a[i] * b[i]); n2 += (long double)a[i] * a[i]; mn = std::min(mn, a[i]); mx = std::max(mx, a[i]); }
      auto chk = [&](const char* what, double got, long double exp, long double scale) {
        if (fabsl(got - exp) > 1e-11L * (scale + fabsl(exp)) + 1e-290L) { char bb[160]; snprintf(bb, sizeof bb, "%s is %.17g expected %.17Lg (n=%d)", what, got, exp, n); f.set(std::string("vector-reduction|") + what, bb); }
      };
      chk("VectorNumT::sum", va.sum(), s, sa);
      chk("VectorNumT::mean", va.mean(), s / n, sa / n);
      chk("VectorNumT::minimum", va.minimum(), mn, 0);
      chk("VectorNumT::maximum", va.maximum(), mx, 0);
      chk("VectorNumT::norm", va.norm(), sqrtl(n2), sqrtl(n2));
      chk("VectorNumT::innerProduct", va.innerProduct(vb), ip, ipa);
      chk("VH::innerProduct", VH::innerProduct(va, vb), ip, ipa);
      chk("VH::innerProduct(ptr)", VH::innerProduct(va.data(), vb.data(), n), ip, ipa);
      chk("VH::innerProduct(span)", VH::innerProduct(constvect(va.data(), va.size()), constvect(vb.data(), vb.size())), ip, ipa);
      chk("VH::cumul", VH::cumul(va), s, sa);
      chk("VH::mean", VH::mean(va), s / n, sa / n);
      chk("VH::norm", VH::norm(va), sqrtl(n2), sqrtl(n2));
      chk("VH::maximum", VH::maximum(va), mx, 0);
      chk("VH::minimum", VH::minimum(va), mn, 0);
      {
        std::vector<double> e(n);
        VectorDouble t = va;
        t.add(vb);
        for (int i = 0; i < n; i++) e[i] = a[i] + b[i];
        cmpVector(t, e, nullptr, "VectorNumT::add", "add", f);
        t = va; t.subtract(vb);
        for (int i = 0; i < n; i++) e[i] = a[i] - b[i];
        cmpVector(t, e, nullptr, "VectorNumT::subtract", "subtract", f);
        t = va; t.multiply(vb);
        for (int i = 0; i < n; i++) e[i] = a[i] * b[i];
        cmpVector(t, e, nullptr, "VectorNumT::multiply", "multiply", f);
        t = va; t.divide(vb);
        for (int i = 0; i < n; i++) e[i] = a[i] / b[i];
        cmpVector(t, e, nullptr, "VectorNumT::divide", "divide", f);
        for (int i = 0; i < n; i++) e[i] = a[i] + b[i];
        cmpVector(VH::add(va, vb), e, nullptr, "VH::add", "add", f);
        for (int i = 0; i < n; i++) e[i] = b[i] - a[i]; // documented: "Return a vector containing vecb - veca"
        cmpVector(VH::subtract(va, vb), e, nullptr, "VH::subtract", "subtract(veca,vecb)=vecb-veca", f);
        t = va; VH::multiplyInPlace(t, vb);
        for (int i = 0; i < n; i++) e[i] = a[i] * b[i];
        cmpVector(t, e, nullptr, "VH::multiplyInPlace", "multiplyInPlace", f);
        t = va; VH::divideInPlace(t, vb);
        for (int i = 0; i < n; i++) e[i] = a[i] / b[i];
        cmpVector(t, e, nullptr, "VH::divideInPlace", "divideInPlace", f);
        // cumulative sum
        VectorDouble cs = VH::cumsum(va, false);
        long double acc = 0;
        std::vector<double> sc(n);
        long double acca = 0;
        for (int i = 0; i < n; i++) { acc += a[i]; acca += std::fabs(a[i]); e[i] = (double)acc; sc[i] = (double)acca; }
        cmpVector(cs, e, &sc, "VH::cumsum", "cumsum", f);
        // sorting and ranking
        std::vector<double> srt(a);
        std::sort(srt.begin(), srt.end());
        cmpVector(VH::sort(va, true), srt, nullptr, "VH::sort", "sort ascending", f, true);
        std::vector<double> dsc(srt.rbegin(), srt.rend());
        cmpVector(VH::sort(va, false), dsc, nullptr, "VH::sort", "sort descending", f, true);
        VectorInt ord = VH::orderRanks(va, true);
        if ((int)ord.size() != n) f.set("vector-size|VH::orderRanks", "size");
        else
        {
          std::vector<bool> seen(n, false);
          for (int i = 0; i < n && !f.bad; i++)
          {
            if (ord[i] < 0 || ord[i] >= n || seen[ord[i]]) { f.set("ranking|VH::orderRanks", "not a permutation"); break; }
            seen[ord[i]] = true;
            if (a[ord[i]] != srt[i]) { f.set("ranking|VH::orderRanks", "a[order[i]] is not the i-th smallest value"); break; }
          }
        }
        VectorInt seq = VH::sequence(n, 3, 2);
        for (int i = 0; i < n && !f.bad; i++) if (seq[i] != 3 + 2 * i) f.set("sequence|VH::sequence", "element " + std::to_string(i));
        std::set<double> us(a.begin(), a.end());
        std::vector<double> ue(us.begin(), us.end());
        cmpVector(VH::unique(va), ue, nullptr, "VH::unique", "unique", f, true);
      }
    }
    else
    {
      c->end(idx, "unknown");
      return true;
    }
    long regs = g_parRegions - regions0;
    if (regs > 0) { c->count("probe.parallel-regions-entered", regs); c->count("probe.parallel-ops"); }
    if (f.bad)
    {
      c->violation("C11|" + f.obs + "|op=" + k, f.detail + " [threads=" + std::to_string(threads) + "]");
      return false;
    }
    // digest of the state (rounded so that legitimate last-bit differences between thread counts do not matter)
    Digest d;
    d.i(S.ref.nr);
    d.i(S.ref.nc);
    c->end(idx, d.hex());
    return true;
  }
};

struct MatRep : Workload
{
  std::string prop() const override { return "C11"; }
  long defaultRuns(const Tier& t) const override { return t.thorough ? 400000 : 5000; }
  std::string rule() const override
  {
    return "a run = seeded history of 3-30 ops (creation in shapes 1xN, Nx1, NxN, NxM with N,M<=12 and a 'large' class 64-160 crossing Eigen's parallel "
           "threshold; element/row/column/diagonal writes, scalings, transposition, sums, linear combinations, products with vectors and matrices in all "
           "transposition flag combinations and mixed operand storages, congruence products, sub-sampling, inversion, solve, Cholesky (dense, sparse Eigen, "
           "sparse cs) with log-determinant and L products, eigen-decomposition; ill-formed sizes/indices must be refused) applied to every admissible storage "
           "replica and to a naive long-double model, with setMultiThread(1..16) and the sparse default back-end switched mid-history; vector reductions and "
           "helpers against long-double references; distinct = (shape class, op-kind sequence, thread switches) hash; non-trivial = at least 3 compared ops";
  }
  std::vector<std::string> realComponents() const override
  {
    return {"MatrixRectangular", "MatrixSquareGeneral", "MatrixSquareSymmetric", "MatrixSparse (Eigen and cs back-ends)", "CholeskyDense", "CholeskySparse", "VectorNumT", "VectorHelper", "Eigen kernels", "libgomp (parallel regions counted through a GOMP_parallel interposer)"};
  }
  std::vector<std::string> stubComponents() const override { return {"naive long-double reference model (oracle)", "message sinks"}; }
  std::vector<std::string> assumptions() const override
  {
    return {"the thread COUNT and the moment it changes are decided by the seed; the interleaving of worker threads inside one Eigen kernel is not (DESIGN §8)",
            "tolerance 1e-11 x (sum of |terms| + |value|) for arithmetic, exact for data movement, 1e-8 relative for inverse/solve/Cholesky on matrices the model bounds as well conditioned"};
  }
  Plan generate(uint64_t seed, long run, const Tier&) override
  {
    Plan p;
    p.prop = "C11";
    p.seed = seed;
    p.run = run;
    Rng shape = stream(seed, "C11", run, "shape");
    Rng ops = stream(seed, "C11", run, "ops");
    std::vector<std::string> enabled;
    double keep = shape.uniform(0.3, 1.0);
    for (int q = 1; q < NOPS; q++) if (shape.chance(keep)) enabled.push_back(OPS[q]);
    if (enabled.size() < 3) for (int q = 1; q < NOPS; q++) enabled.push_back(OPS[q]);
    long nops = shape.chance(0.7) ? shape.range(3, 10) : shape.range(11, 30);
    double pill = shape.chance(0.4) ? 0. : 0.15;
    auto mk = [&](const std::string& kind) {
      Op o;
      o.kind = kind;
      for (int a = 0; a < 10; a++) o.i.push_back(ops.range(0, 1000));
      if (ops.chance(pill)) o.i[3] = -1;
      return o;
    };
    p.ops.push_back(mk("reset"));
    if (shape.chance(0.3)) p.ops.push_back(mk("threads"));
    for (long k = 0; k < nops; k++)
    {
      if (ops.chance(0.08)) p.ops.push_back(mk("reset"));
      p.ops.push_back(mk(enabled[ops.below((long)enabled.size())]));
    }
    return p;
  }
  void execute(const Plan& p, Ctx& c) override
  {
    // every child starts single-threaded; the history decides otherwise
    omp_set_num_threads(1);
    Exec ex;
    ex.c = &c;
    long done = 0;
    for (size_t k = 0; k < p.ops.size(); k++)
    {
      if (!ex.step((long)k, p.ops[k])) return;
      done++;
    }
    if (g_parThreadsMax > 1) c.count("probe.max-team-size-" + std::to_string(g_parThreadsMax));
    if (done >= 3) c.nontrivial();
  }
};

} // namespace

namespace sk {
Workload* makeWorkload_C11() { return new MatRep(); }
}
