// C08 / C09 — `store` workloads on a simulated disk.
//  C08: fault-free configuration: save -> reload -> equivalent object, same bytes again.
//  C09: crash / corruption configuration: every damaged image of a valid file is offered to
//       the real loaders; they must fail cleanly or return a consistent, usable, savable object.
#include "gl.hpp"
#include "store_classes.hpp"
#include <map>

#include "Basic/AException.hpp"
#include "Neigh/ANeigh.hpp"
#include "Basic/CSVformat.hpp"
#include "Core/CSV.hpp"
#include "Enum/ELoadBy.hpp"
#include "OutputFormat/AOF.hpp"

#include <fstream>
#include <sstream>
#include <sys/stat.h>
#include <unistd.h>

using namespace sk;

int g_storeEventFd = -1;

namespace {

// ---------------------------------------------------------------- simulated disk: recording writer
struct RecBuf : std::streambuf
{
  std::string data;
  std::vector<std::pair<size_t, size_t>> events; // (offset, length) of each write event
  std::vector<char> buf;
  explicit RecBuf(size_t bufsz) : buf(bufsz ? bufsz : 1) { setp(buf.data(), buf.data() + buf.size()); }
  void flushEvent()
  {
    size_t n = (size_t)(pptr() - pbase());
    if (n > 0)
    {
      events.emplace_back(data.size(), n);
      data.append(pbase(), n);
    }
    setp(buf.data(), buf.data() + buf.size());
  }
  int_type overflow(int_type ch) override
  {
    flushEvent();
    if (ch != traits_type::eof())
    {
      *pptr() = (char)ch;
      pbump(1);
    }
    return ch == traits_type::eof() ? 0 : ch;
  }
  int sync() override
  {
    flushEvent();
    return 0;
  }
};

// reader with short reads, an optional hard error, and a step budget after EOF
struct FaultyReader : std::streambuf
{
  const std::string& d;
  size_t pos = 0, chunk;
  long badAt;
  long eofCalls = 0;
  std::vector<char> buf;
  FaultyReader(const std::string& data, size_t chunkSize, long badAtByte) : d(data), chunk(chunkSize ? chunkSize : 1), badAt(badAtByte), buf(chunk) {}
  int_type underflow() override
  {
    // a failing read(2) under a filebuf surfaces as end of file (filebuf::underflow returns eof, it does not throw):
    // the simulated EIO therefore ends the stream at that byte, after a short read
    if (badAt >= 0 && (long)pos >= badAt) { if (++eofCalls > 10000) { const char* m = "X budget-steps\n"; if (g_storeEventFd >= 0) (void)!write(g_storeEventFd, m, strlen(m)); _exit(80); } return traits_type::eof(); }
    if (pos >= d.size())
    {
      if (++eofCalls > 10000)
      {
        // deterministic step budget: a loader that keeps re-reading at EOF is a hang
        const char* m = "X budget-steps\n";
        if (g_storeEventFd >= 0) (void)!write(g_storeEventFd, m, strlen(m));
        _exit(80);
      }
      return traits_type::eof();
    }
    size_t n = std::min(chunk, d.size() - pos);
    if (badAt >= 0 && (long)(pos + n) > badAt) n = (size_t)(badAt - (long)pos);
    if (n == 0) return traits_type::eof();
    memcpy(buf.data(), d.data() + pos, n);
    pos += n;
    setg(buf.data(), buf.data(), buf.data() + n);
    return traits_type::to_int_type(buf[0]);
  }
};

// ---------------------------------------------------------------- damage model
struct Damage
{
  int kind = 0; // see names
  long a = 0, b = 0, c = 0;
};
const char* DMG[] = {"cut", "torn-tail", "lost-write", "dup-write", "token-replace", "token-delete", "line-dup", "line-swap", "crlf", "cr-only",
                     "bom", "byte-flip", "wrong-class", "header-token-replace", "none", "nul-byte", "long-line"};

struct Token { size_t pos, len; };
std::vector<Token> tokenize(const std::string& s)
{
  std::vector<Token> t;
  size_t i = 0;
  while (i < s.size())
  {
    while (i < s.size() && isspace((unsigned char)s[i])) i++;
    size_t j = i;
    while (j < s.size() && !isspace((unsigned char)s[j])) j++;
    if (j > i) t.push_back({i, j - i});
    i = j;
  }
  return t;
}
std::vector<std::pair<size_t, size_t>> lines(const std::string& s)
{
  std::vector<std::pair<size_t, size_t>> l;
  size_t i = 0;
  while (i < s.size())
  {
    size_t j = s.find('\n', i);
    if (j == std::string::npos) j = s.size() - 1;
    l.emplace_back(i, j - i + 1);
    i = j + 1;
  }
  return l;
}
std::string replacementToken(long r, const std::string& body, const std::vector<Token>& toks)
{
  // format-aware tokens: role names with odd ranks, keywords of the formats
  static const char* domain[] = {"code2", "sel2", "w2", "x2000000000", "facies1", "z0", "z-1", "f99", "NA", "1,2", "0x10", "+", "1e", ".", "-", "@", "!", "999999999999", "1.5", "2"};
  if (r % 3 == 2) return domain[(r / 3) % 20];
  switch (r % 11)
  {
    case 0: return "-1";
    case 1: return "0";
    case 2: return "2147483647";
    case 3: return "1e308";
    case 4: return "nan";
    case 5: return "NA";
    case 6: return "";
    case 7: return std::string(5000, 'w');
    case 8: return "1000000";
    case 9: return "-3";
    default:
    {
      if (toks.empty()) return "7";
      const Token& t = toks[(size_t)(r / 11) % toks.size()];
      return body.substr(t.pos, t.len);
    }
  }
}

// image = what the (simulated) disk holds after the damage
std::string applyDamage(const std::string& image, const std::vector<std::pair<size_t, size_t>>& events, const Damage& d,
                        const std::string& otherImage)
{
  const std::string& s = image;
  switch (d.kind)
  {
    case 0: return s.substr(0, (size_t)std::min<long>(d.a, (long)s.size()));
    case 1:
    {
      size_t k = (size_t)std::min<long>(d.a, (long)s.size());
      std::string o = s.substr(0, k);
      size_t to = ((k / 64) + 1) * 64;
      o.append(to - k, '\0');
      return o;
    }
    case 2:
    {
      if (events.empty()) return s;
      auto e = events[(size_t)d.a % events.size()];
      std::string o = s;
      if (e.first + e.second <= o.size()) o.erase(e.first, e.second);
      return o;
    }
    case 3:
    {
      if (events.empty()) return s;
      auto e = events[(size_t)d.a % events.size()];
      std::string o = s;
      if (e.first + e.second <= o.size()) o.insert(e.first, s.substr(e.first, e.second));
      return o;
    }
    case 13:
    {
      // the structure of a file (counts, role names, flags) sits in its first lines: corruption focused there
      auto toks = tokenize(s);
      size_t nh = 0;
      while (nh < toks.size() && toks[nh].pos < 400) nh++;
      if (nh == 0) return s;
      Token t = toks[(size_t)d.a % nh];
      std::string o = s;
      o.replace(t.pos, t.len, replacementToken(d.b, s, toks));
      return o;
    }
    case 4:
    case 5:
    {
      auto toks = tokenize(s);
      if (toks.empty()) return s;
      Token t = toks[(size_t)d.a % toks.size()];
      std::string o = s;
      o.replace(t.pos, t.len, d.kind == 5 ? "" : replacementToken(d.b, s, toks));
      return o;
    }
    case 6:
    {
      auto l = lines(s);
      if (l.empty()) return s;
      auto x = l[(size_t)d.a % l.size()];
      std::string o = s;
      o.insert(x.first, s.substr(x.first, x.second));
      return o;
    }
    case 7:
    {
      auto l = lines(s);
      if (l.size() < 2) return s;
      size_t i = (size_t)d.a % (l.size() - 1);
      std::string o = s.substr(0, l[i].first) + s.substr(l[i + 1].first, l[i + 1].second) + s.substr(l[i].first, l[i].second) +
                      s.substr(l[i + 1].first + l[i + 1].second);
      return o;
    }
    case 8:
    case 9:
    {
      std::string o;
      for (char ch : s)
      {
        if (ch == '\n') o += (d.kind == 8 ? "\r\n" : "\r");
        else o += ch;
      }
      return o;
    }
    case 10: return std::string("\xEF\xBB\xBF") + s;
    case 11:
    {
      if (s.empty()) return s;
      std::string o = s;
      o[(size_t)d.a % o.size()] ^= (char)(1 << (d.b % 8));
      return o;
    }
    case 12: return otherImage;
    case 15:
    {
      // a NUL byte inside the text (C string functions stop there)
      std::string o = s;
      o.insert((size_t)d.a % (o.size() + 1), 1, '\0');
      return o;
    }
    case 16:
    {
      // one line made longer than the fixed line buffers (10000 characters) of the ASCII readers
      if (s.empty()) return s;
      size_t at = (size_t)d.a % s.size();
      size_t eol = s.find('\n', at);
      if (eol == std::string::npos) eol = s.size();
      std::string filler;
      while (filler.size() < 12000) filler += (d.b % 2) ? " 1" : "7";
      std::string o = s;
      o.insert(eol, filler);
      return o;
    }
    default: return s;
  }
}

// ---------------------------------------------------------------- helpers
std::string scratchDir()
{
  const char* e = getenv("VERIF_SCRATCH");
  std::string base = e ? e : "/dev/shm";
  std::string d = base + "/verif." + std::to_string((long)getppid());
  mkdir(d.c_str(), 0777);
  return d;
}
void writeFileRaw(const std::string& p, const std::string& bytes)
{
  FILE* f = fopen(p.c_str(), "wb");
  if (!f) return;
  fwrite(bytes.data(), 1, bytes.size(), f);
  fclose(f);
}
std::string keyStem(const std::string& k)
{
  std::string o;
  bool inb = false;
  for (char c : k)
  {
    if (c == '[') { inb = true; o += "[#]"; continue; }
    if (c == ']') { inb = false; continue; }
    if (inb) continue;
    if (isdigit((unsigned char)c)) { if (o.empty() || o.back() != '#') o += '#'; continue; }
    o += c;
  }
  return o;
}
// transient operating flags that the library resets on every use are not "defining parameters"
// (ANeigh::reset() clears the cross-validation flag at the start of every KrigingSystem)
// bit-exact equality of two descriptions ("" or the first differing key)
std::string descExact(const Desc& a, const Desc& b)
{
  if (a.e.size() != b.e.size()) return "entry count " + std::to_string(a.e.size()) + " vs " + std::to_string(b.e.size());
  for (size_t i = 0; i < a.e.size(); i++)
  {
    const auto& x = a.e[i];
    const auto& y = b.e[i];
    if (x.key != y.key || x.kind != y.kind) return x.key + ": key/kind differs";
    bool same = x.kind == 0 ? x.i == y.i : x.kind == 2 ? x.s == y.s : (sameBits(x.d, y.d) || (isUndef(x.d) && isUndef(y.d)));
    if (!same)
    {
      char b2[200];
      if (x.kind == 1) snprintf(b2, sizeof b2, "%s: %.17g vs %.17g", x.key.c_str(), x.d, y.d);
      else if (x.kind == 0) snprintf(b2, sizeof b2, "%s: %ld vs %ld", x.key.c_str(), x.i, y.i);
      else snprintf(b2, sizeof b2, "%s: '%s' vs '%s'", x.key.c_str(), x.s.substr(0, 40).c_str(), y.s.substr(0, 40).c_str());
      return b2;
    }
  }
  return "";
}
void neutraliseTransient(ASerializable* o)
{
  if (auto* n = dynamic_cast<ANeigh*>(o)) n->setFlagXvalid(false);
}
void dropTransient(Desc& d)
{
  std::vector<Desc::Entry> keep;
  for (auto& e : d.e) if (e.key != "xvalid") keep.push_back(e);
  d.e = keep;
}
std::string firstWord(const std::string& s)
{
  std::string o;
  for (char c : s)
  {
    if (isspace((unsigned char)c) || c == ':' || c == '(' || c == '=') break;
    o += c;
  }
  return o.substr(0, 40);
}
// file@line of an AException: the line number moves with every edit of the file, the signature keeps the file only
std::string noLine(const std::string& s)
{
  size_t at = s.rfind('@');
  if (at == std::string::npos) return s;
  for (size_t k = at + 1; k < s.size(); k++) if (!isdigit((unsigned char)s[k])) return s;
  return s.substr(0, at);
}

// serialise through the stream seam into the simulated disk
bool writeObject(const ASerializable* obj, size_t bufsz, std::string& bytes, std::vector<std::pair<size_t, size_t>>& events)
{
  RecBuf rb(bufsz);
  std::ostream os(&rb);
  bool ok = obj->serialize(os, false);
  os.flush();
  rb.flushEvent();
  bytes = rb.data;
  events = rb.events;
  return ok;
}

struct LoadOutcome
{
  std::string cls;      // failed | object | exception | budget-mem
  std::string what;     // exception type/message
  std::unique_ptr<ASerializable> obj;
  bool inherentCost = false; // a refused allocation was a cost inherent to the kind of object (reach probe)
};

// run the real loader on an image. mode 0: stream seam on the body; mode 1: path API on tag+body
LoadOutcome loadImage(const ClassAdapter& ad, const std::string& body, int mode, size_t chunk, long badAt, const std::string& pathImage)
{
  LoadOutcome lo;
  memBudgetStart(64u << 20, 256u << 20);
  try
  {
    if (mode == 0)
    {
      std::unique_ptr<ASerializable> b(ad.blank());
      FaultyReader fr(body, chunk, badAt);
      std::istream is(&fr);
      bool ok = b->deserialize(is, false);
      if (ok) { lo.cls = "object"; lo.obj = std::move(b); }
      else lo.cls = "failed";
    }
    else
    {
      std::string dir = scratchDir();
      std::string p = dir + "/img.nf";
      writeFileRaw(p, pathImage);
      ASerializable* o = ad.fromNF(p);
      if (o) { lo.cls = "object"; lo.obj.reset(o); }
      else lo.cls = "failed";
    }
  }
  catch (const std::bad_alloc& e)
  {
    lo.cls = memBudgetExceeded() ? "budget-mem" : "exception";
    lo.what = "std::bad_alloc";
  }
  catch (const std::length_error& e) { lo.cls = memBudgetExceeded() ? "budget-mem" : "exception"; lo.what = "std::length_error"; }
  catch (const std::out_of_range& e) { lo.cls = "exception"; lo.what = "std::out_of_range"; }
  catch (const std::invalid_argument& e) { lo.cls = "exception"; lo.what = "std::invalid_argument"; }
  catch (const AException& e) { lo.cls = "exception"; lo.what = "AException"; }
  catch (const std::exception& e) { lo.cls = "exception"; lo.what = std::string("std::exception:") + noLine(firstWord(e.what())); }
  catch (...) { lo.cls = "exception"; lo.what = "unknown"; }
  if (memBudgetExceeded() && lo.cls != "exception") lo.cls = "budget-mem";
  if (memBudgetInherent() && !memBudgetExceeded() && lo.cls == "exception" && lo.what == "std::bad_alloc") { lo.cls = "failed"; lo.inherentCost = true; }
  memBudgetStop();
  return lo;
}

// C09 judgement of one load. returns "" or violation signature tail + detail
void judgeSurvivor(const ClassAdapter& ad, LoadOutcome& lo, Ctx& c, const std::string& dmgName, const std::string& detailCtx)
{
  const std::string P = "C09|";
  if (lo.inherentCost) c.count("probe.allocation-inherent-to-object-kind-refused");
  if (lo.cls == "failed") { c.count("outcome.load-refused"); return; }
  if (lo.cls == "exception")
  {
    c.violation(P + "exception-escaped|" + ad.name + "|" + lo.what, detailCtx);
    return;
  }
  if (lo.cls == "budget-mem")
  {
    c.violation(P + "budget-mem|" + ad.name, detailCtx + " requested up to " + std::to_string(memBudgetPeak()) + " bytes in one allocation");
    return;
  }
  c.count("outcome.load-returned-object");
  ASerializable* o = lo.obj.get();
  try
  {
    std::string bad = ad.consistent(o);
    if (bad.rfind("param: ", 0) == 0)
    {
      // a value the API constructors accept as well: not a consistency rule of API-built objects (reach probe only)
      c.count("probe.survivor-with-unchecked-parameter-range");
      bad.clear();
    }
    if (!bad.empty())
    {
      c.violation(P + "inconsistent-object|" + ad.name + "|" + firstWord(bad), detailCtx + " :: " + bad);
      return;
    }
    Desc d1, p1;
    ad.describe(o, d1);
    ad.probe(o, p1);
    // savable again, and the saved survivor reloads to an equal object
    std::string bytes2;
    std::vector<std::pair<size_t, size_t>> ev;
    if (!writeObject(o, 4096, bytes2, ev))
    {
      c.violation(P + "survivor-not-savable|" + ad.name, detailCtx);
      return;
    }
    std::unique_ptr<ASerializable> b(ad.blank());
    std::istringstream is(bytes2);
    if (!b->deserialize(is, false))
    {
      // the property asks for "can be used and saved again"; whether that file reads back is the round-trip
      // property's matter (C08): reach probe only
      c.count("probe.survivor-saved-but-save-not-reloadable(C08-matter)");
      return;
    }
    Desc d2;
    ad.describe(b.get(), d2);
    // equality of the re-saved survivor with itself is the round-trip property (C08): here it is a reach probe only
    std::string df = descDiff(d1, d2, 1e-14);
    if (!df.empty()) c.count("probe.survivor-roundtrip-differs(C08-matter)");
    c.count("probe.survivor-usable-and-savable");
  }
  catch (const std::exception& e)
  {
    c.violation(P + "unusable-object|" + ad.name + "|" + firstWord(e.what()), detailCtx + " :: exception while using the loaded object: " + e.what());
  }
  catch (...)
  {
    c.violation(P + "unusable-object|" + ad.name + "|unknown", detailCtx);
  }
  (void)dmgName;
}

// ---------------------------------------------------------------- exchange formats (path API only)
// CSV and grid exchange files are written by the library's own writers into the scratch directory, read back as
// bytes (the simulated disk content), damaged, materialised again and offered to the library's readers.
struct Fmt
{
  std::string name;    // fmt.CSV, fmt.Zycor, fmt.IfpEn, fmt.Bmp
  std::string judgeAs; // class adapter used to judge what the reader returns
};
const std::vector<Fmt>& formats()
{
  // fmt.F2G has a reader only: its valid images are written by the harness after the reader's grammar (C09 only)
  static std::vector<Fmt> F = {{"fmt.CSV", "Db"}, {"fmt.Zycor", "DbGrid"}, {"fmt.IfpEn", "DbGrid"}, {"fmt.Bmp", "DbGrid"}, {"fmt.F2G", "DbGrid"}};
  return F;
}
const Fmt* findFmt(const std::string& n)
{
  for (auto& f : formats()) if (f.name == n) return &f;
  return nullptr;
}
std::string readFileRaw(const std::string& p)
{
  std::ifstream f(p, std::ios::binary);
  std::stringstream ss;
  ss << f.rdbuf();
  return ss.str();
}
CSVformat csvFormatOf(long code)
{
  bool header = (code % 2) == 0;
  char sep = ((code / 2) % 3 == 0) ? ',' : ((code / 2) % 3 == 1 ? ';' : ' ');
  return CSVformat(header, 0, sep, '.', (code / 6) % 2 ? "NA" : "MISS");
}
// build an object and write it with the library writer; returns the file bytes
bool fmtMake(const Fmt& f, const Op& op, std::unique_ptr<Db>& orig, std::string& bytes)
{
  Rng r((uint64_t)op.I(0) * 0x9E3779B97F4A7C15ULL + hstr(f.name));
  std::string p = scratchDir() + "/fmtsrc.dat";
  unlink(p.c_str());
  if (f.name == "fmt.CSV")
  {
    int n = 1 + (int)r.below(12), nv = 1 + (int)r.below(4);
    VectorDouble tab;
    VectorString names;
    static const char* nm[] = {"alpha", "beta", "gam", "del"};
    for (int v = 0; v < nv; v++) names.push_back(nm[v]);
    for (int i = 0; i < n; i++) for (int v = 0; v < nv; v++) tab.push_back(r.chance(0.1) ? TEST : (r.chance(0.3) ? (double)r.range(-5, 5) : r.gauss() * 10));
    orig.reset(Db::createFromSamples(n, ELoadBy::SAMPLE, tab, names, VectorString(), false));
    CSVformat fmt = csvFormatOf(op.I(0));
    if (db_write_csv(orig.get(), p.c_str(), fmt, 1, 1, false) != 0) return false;
  }
  else if (f.name == "fmt.F2G")
  {
    int ndim = 1 + (int)r.below(3), ncol = 1 + (int)r.below(2);
    int nn[3] = {1, 1, 1};
    std::ostringstream t;
    t << "F2G_DIM " << ndim << "\nF2G_VERSION 1\nF2G_LOCATION " << r.range(-50, 50) << ". " << r.range(-50, 50) << ". 0.\nF2G_ROTATION " << (r.chance(0.5) ? 0 : r.range(1, 80)) << ".\nF2G_ORIGIN";
    for (int d = 0; d < ndim; d++) t << " 0.";
    t << "\nF2G_NB_NODES";
    for (int d = 0; d < ndim; d++) { nn[d] = 2 + (int)r.below(4); t << " " << nn[d]; }
    t << "\nF2G_LAGS";
    for (int d = 0; d < ndim; d++) t << " " << (1 + r.below(3)) << ".5";
    t << "\nF2G_ORDER +Y +X +Z\nF2G_NB_VARIABLES " << ncol << "\n";
    for (int v = 0; v < ncol; v++) t << "F2G_VARIABLE_" << (v + 1) << " var" << (v + 1) << "\nF2G_UNDEFINED_" << (v + 1) << " -999\n";
    t << "F2G_VALUES\n";
    int ntot = nn[0] * nn[1] * nn[2] * ncol;
    for (int i = 0; i < ntot; i++) { if (r.chance(0.1)) t << "-999"; else t << (double)r.range(-500, 500) / 10.; t << ((i % 6 == 5) ? "\n" : " "); }
    t << "\n";
    bytes = t.str();
    orig.reset(DbGrid::create({nn[0], nn[1]}));
    return true;
  }
  else
  {
    int nx = 2 + (int)r.below(5), ny = 2 + (int)r.below(4);
    DbGrid* g = DbGrid::create({nx, ny}, {0.5 + r.below(4), 1. + r.below(3)}, {(double)r.range(-5, 5), (double)r.range(0, 9)});
    VectorDouble v(g->getSampleNumber());
    for (auto& x : v) x = r.chance(0.1) ? TEST : (f.name == "fmt.Bmp" ? (double)r.range(0, 200) : r.gauss() * 5);
    g->addColumns(v, "var", ELoc::Z, 0);
    orig.reset(g);
    int icol = g->getColumnNumber() - 1;
    int err = 1;
    if (f.name == "fmt.Zycor") err = db_grid_write_zycor(p.c_str(), g, icol);
    else if (f.name == "fmt.IfpEn") { int ic[1] = {icol}; err = db_grid_write_ifpen(p.c_str(), g, 1, ic); }
    else err = db_grid_write_bmp(p.c_str(), g, icol);
    if (err) return false;
  }
  bytes = readFileRaw(p);
  return !bytes.empty();
}
Db* fmtLoad(const Fmt& f, const Op& op, const std::string& path)
{
  if (f.name == "fmt.CSV") return Db::createFromCSV(path, csvFormatOf(op.I(0)), false);
  if (f.name == "fmt.Zycor") return db_grid_read_zycor(path.c_str(), 0);
  if (f.name == "fmt.F2G") return db_grid_read_f2g(path.c_str(), 0);
  if (f.name == "fmt.IfpEn") return db_grid_read_ifpen(path.c_str(), 0);
  return db_grid_read_bmp(path.c_str(), 0);
}

const ClassAdapter& adapterFor(const Op& op)
{
  const auto& A = adapters();
  const ClassAdapter* a = findAdapter(op.S(0));
  if (a) return *a;
  return A[(size_t)(std::labs(op.I(1)) % (long)A.size())];
}

// enumerate the damage list of a sweep deterministically
std::vector<Damage> damageList(const std::string& image, size_t tagLen, const std::vector<std::pair<size_t, size_t>>& events, long ncuts,
                               long ncorrupt, uint64_t seed)
{
  std::vector<Damage> L;
  Rng r(seed);
  std::set<long> cuts;
  if (ncuts < 0)
    for (long k = 0; k < (long)image.size(); k++) cuts.insert(k);
  else
  {
    for (auto& e : events) { cuts.insert((long)(tagLen + e.first)); cuts.insert((long)(tagLen + e.first + e.second)); }
    for (long k = 0; k <= (long)tagLen; k++) cuts.insert(k);
    for (long k = 0; k < ncuts; k++) cuts.insert(r.below((long)image.size()));
    cuts.erase((long)image.size());
  }
  for (long k : cuts) { Damage d; d.kind = 0; d.a = k; L.push_back(d); }
  for (long k = 0; k < ncorrupt; k++)
  {
    Damage d;
    double u = r.unit();
    if (u < 0.25) { d.kind = 4; d.a = r.below(100000); d.b = r.below(100000); }
    else if (u < 0.45) { d.kind = 13; d.a = r.below(100000); d.b = r.below(100000); }
    else if (u < 0.55) { d.kind = 5; d.a = r.below(100000); }
    else if (u < 0.62) { d.kind = 1; d.a = r.below((long)image.size() + 1); }
    else if (u < 0.70) { d.kind = 2; d.a = r.below(100000); }
    else if (u < 0.75) { d.kind = 3; d.a = r.below(100000); }
    else if (u < 0.80) { d.kind = 6; d.a = r.below(100000); }
    else if (u < 0.85) { d.kind = 7; d.a = r.below(100000); }
    else if (u < 0.88) { d.kind = 8; }
    else if (u < 0.90) { d.kind = 9; }
    else if (u < 0.92) { d.kind = 10; }
    else if (u < 0.955) { d.kind = 11; d.a = r.below(100000); d.b = r.below(8); }
    else if (u < 0.963) { d.kind = 15; d.a = r.below(100000); d.b = r.below(8); }
    else if (u < 0.97) { d.kind = 16; d.a = r.below(100000); d.b = r.below(8); }
    else { d.kind = 12; d.a = r.below(100000); }
    L.push_back(d);
  }
  return L;
}

struct Made
{
  const ClassAdapter* ad = nullptr;
  std::unique_ptr<ASerializable> obj;
  std::string body, image; // image = tag line + body (what dumpToNF writes)
  std::vector<std::pair<size_t, size_t>> events;
  size_t tagLen = 0;
  bool ok = false;
};
Made makeObject(const Op& op, size_t bufsz)
{
  Made m;
  m.ad = &adapterFor(op);
  Rng r((uint64_t)op.I(0) * 0x9E3779B97F4A7C15ULL + hstr(m.ad->name));
  m.obj.reset(m.ad->make(r));
  if (!m.obj) return m;
  m.ok = writeObject(m.obj.get(), bufsz, m.body, m.events);
  std::string tag = m.ad->name + "\n";
  // the tag the library writes is _getNFName(): obtain it through the path API once
  m.tagLen = tag.size();
  m.image = tag + m.body;
  return m;
}
// the real tag line (class name written by _fileOpenWrite) — via dumpToNF into the scratch dir
std::string realTagLine(const ASerializable* o)
{
  std::string dir = scratchDir();
  ASerializable::setContainerName(false, dir + "/");
  ASerializable::unsetPrefixName();
  std::string tag;
  if (o->dumpToNF("tag.nf", false))
  {
    std::ifstream f(dir + "/tag.nf");
    std::getline(f, tag);
  }
  ASerializable::unsetContainerName();
  return tag + "\n";
}

// ================================================================ C09 child
void execSweep(const Plan& p, Ctx& c, long startIndex)
{
  childInit();
  g_storeEventFd = c.fd;
  const Op* oop = nullptr;
  const Op* sop = nullptr;
  const Op* dop = nullptr;
  const Op* lop = nullptr;
  for (auto& o : p.ops)
  {
    if (o.kind == "obj") oop = &o;
    if (o.kind == "sweep") sop = &o;
    if (o.kind == "damage") dop = &o;
    if (o.kind == "load") lop = &o;
  }
  if (!oop) { c.line("Z no-obj"); return; }
  size_t bufsz = (size_t)p.knob("bufsz", 64);
  if (const Fmt* fm = findFmt(oop->S(0)))
  {
    // exchange format: path API only
    c.begin(0, "obj");
    std::unique_ptr<Db> orig;
    std::string image;
    if (!fmtMake(*fm, *oop, orig, image)) { c.line("Z cannot-write-format " + fm->name); return; }
    c.end(0, Digest().hex());
    c.fp(fm->name);
    const ClassAdapter* judge = findAdapter(fm->judgeAs);
    std::vector<Damage> L;
    if (dop) { Damage d; d.kind = (int)dop->I(0); d.a = dop->I(1); d.b = dop->I(2); L.push_back(d); }
    else if (sop)
    {
      std::vector<std::pair<size_t, size_t>> ev;
      for (size_t k = 0; k < image.size(); k += 64) ev.emplace_back(k, std::min<size_t>(64, image.size() - k)); // 64-byte write events
      L = damageList(image, 0, ev, sop->I(0), sop->I(1), (uint64_t)sop->I(2) + 77);
    }
    c.line("S total " + std::to_string(L.size()));
    std::vector<std::pair<size_t, size_t>> ev;
    for (size_t k = 0; k < image.size(); k += 64) ev.emplace_back(k, std::min<size_t>(64, image.size() - k));
    for (size_t k = (size_t)startIndex; k < L.size(); k++)
    {
      const Damage& d = L[k];
      if (d.kind == 12) continue;
      std::string img = applyDamage(image, ev, d, "");
      c.begin((long)k, "load." + fm->name + " dmg=" + DMG[d.kind] + "," + std::to_string(d.a) + "," + std::to_string(d.b) + " mode=1");
      c.count(std::string("fault.") + DMG[d.kind]);
      std::string path = scratchDir() + "/fmtimg.dat";
      writeFileRaw(path, img);
      if (getenv("SIMKIT_DUMP_IMAGE")) writeFileRaw(getenv("SIMKIT_DUMP_IMAGE"), img);
      LoadOutcome lo;
      memBudgetStart(64u << 20, 256u << 20);
      try
      {
        Db* o = fmtLoad(*fm, *oop, path);
        if (o) { lo.cls = "object"; lo.obj.reset(o); } else lo.cls = "failed";
      }
      catch (const std::bad_alloc&) { lo.cls = memBudgetExceeded() ? "budget-mem" : "exception"; lo.what = "std::bad_alloc"; }
      catch (const std::length_error&) { lo.cls = memBudgetExceeded() ? "budget-mem" : "exception"; lo.what = "std::length_error"; }
      catch (const std::exception& e) { lo.cls = "exception"; lo.what = std::string("std::exception:") + noLine(firstWord(e.what())); }
      catch (...) { lo.cls = "exception"; lo.what = "unknown"; }
      if (memBudgetExceeded() && lo.cls != "exception") lo.cls = "budget-mem";
      memBudgetStop();
      std::string ctx = std::string("damage ") + DMG[d.kind] + "(" + std::to_string(d.a) + "," + std::to_string(d.b) + ") format " + fm->name + " image " + std::to_string(img.size()) + "B";
      // what a format reader returns is judged as the Db/DbGrid it claims to be; signatures carry the format name
      ClassAdapter named = *judge;
      named.name = fm->name;
      c.phase("loader-returned");
      judgeSurvivor(named, lo, c, DMG[d.kind], ctx);
      c.line("A " + std::to_string(k) + " " + lo.cls);
    }
    c.nontrivial();
    return;
  }
  c.begin(0, "obj");
  Made m = makeObject(*oop, bufsz);
  if (!m.ok) { c.line("Z cannot-write-object " + (m.ad ? m.ad->name : "?")); return; }
  std::string tag = realTagLine(m.obj.get());
  m.image = tag + m.body;
  m.tagLen = tag.size();
  c.end(0, Digest().hex());
  c.fp(m.ad->name);
  // image of another class for the wrong-type fault
  std::string otherImage;
  {
    Op o2 = *oop;
    o2.s.clear();
    o2.i = {oop->I(0) + 1, oop->I(0) + 7};
    Made other = makeObject(o2, 4096);
    if (other.ok)
    {
      bool keepTag = (oop->I(0) % 2) == 0;
      otherImage = (keepTag ? tag : realTagLine(other.obj.get())) + other.body;
    }
  }
  std::vector<Damage> L;
  std::vector<int> modes;
  if (dop)
  {
    Damage d;
    d.kind = (int)dop->I(0);
    d.a = dop->I(1);
    d.b = dop->I(2);
    d.c = dop->I(3);
    L.push_back(d);
    modes.push_back(lop ? (int)lop->I(0) : 0);
  }
  else if (sop)
  {
    L = damageList(m.image, m.tagLen, m.events, sop->I(0), sop->I(1), (uint64_t)sop->I(2) + 77);
  }
  c.line("S total " + std::to_string(L.size()));
  size_t chunk = (size_t)p.knob("chunk", 7);
  bool hasPath = (bool)m.ad->fromNF;
  for (size_t k = (size_t)startIndex; k < L.size(); k++)
  {
    const Damage& d = L[k];
    std::string img = applyDamage(m.image, m.events, d, otherImage);
    std::vector<int> ms = modes;
    if (ms.empty())
    {
      ms.push_back(0);
      if (hasPath) ms.push_back(1);
    }
    for (int mode : ms)
    {
      if (mode == 1 && !hasPath) continue;
      std::string body;
      if (mode == 0)
      {
        // the stream seam starts after the tag line: damage inside the tag line is a path-API matter
        if (d.kind == 0 || d.kind == 1) { if ((size_t)d.a < m.tagLen) continue; }
        if (img.size() < m.tagLen || img.compare(0, m.tagLen, tag) != 0)
        {
          if (d.kind == 12 || d.kind == 10 || d.kind >= 4) { /* tag damaged or foreign: only meaningful through the path API */ if (hasPath) continue; }
          body = img.size() >= m.tagLen ? img.substr(m.tagLen) : "";
        }
        else body = img.substr(m.tagLen);
      }
      c.begin((long)k, "load." + m.ad->name + " dmg=" + DMG[d.kind] + "," + std::to_string(d.a) + "," + std::to_string(d.b) + " mode=" + std::to_string(mode));
      c.count(std::string("fault.") + DMG[d.kind]);
      long badAt = -1;
      if (mode == 0 && d.kind == 11 && (d.a % 3) == 0) { badAt = d.a % (long)(body.size() + 1); c.count("fault.reader-eio"); }
      if (getenv("SIMKIT_DUMP_IMAGE")) writeFileRaw(getenv("SIMKIT_DUMP_IMAGE"), img);
      LoadOutcome lo = loadImage(*m.ad, body, mode, chunk, badAt, img);
      std::string ctx = std::string("damage ") + DMG[d.kind] + "(" + std::to_string(d.a) + "," + std::to_string(d.b) + ") mode " + (mode ? "path" : "stream") +
                        " class " + m.ad->name + " image " + std::to_string(img.size()) + "B";
      if (d.kind == 0)
      {
        // reach probes
        if ((size_t)d.a < m.tagLen) c.count("probe.cut-inside-tag-line");
        else if ((size_t)d.a < m.image.size() && (isdigit((unsigned char)m.image[d.a]) || m.image[d.a] == '.') && d.a > 0 && isdigit((unsigned char)m.image[d.a - 1])) c.count("probe.cut-inside-number");
        if (d.a >= 1 && m.image[d.a - 1] == 'N' && (size_t)d.a < m.image.size() && m.image[d.a] == 'A') c.count("probe.cut-inside-NA");
      }
      if (d.kind == 12) c.count("probe.wrong-class-offered");
      if (d.kind == 4 && (d.b % 11) == 2) c.count("probe.count-inflated");
      c.phase("loader-returned");
      judgeSurvivor(*m.ad, lo, c, DMG[d.kind], ctx);
      c.line("A " + std::to_string(k) + " " + lo.cls);
    }
  }
  c.nontrivial();
}

struct StoreC09 : Workload
{
  std::string prop() const override { return "C09"; }
  long defaultRuns(const Tier& t) const override { return t.thorough ? 30000 : 900; }
  std::string rule() const override
  {
    return "a run = one generated valid object of one serialisable class, written by the real serialiser into the simulated disk (write buffer 1/7/64/4096 "
           "bytes), then one batch child that offers every damaged image to the real loaders (stream seam with short reads and the path API with the tag "
           "line): byte prefixes (quick: every write-event boundary, every cut of the tag line and 48 random interior cuts; thorough: EVERY byte prefix), "
           "plus seeded token/line/encoding corruptions, torn tails, lost and duplicated write events, foreign-class files; a load that kills the child is "
           "re-run alone in a fresh child; distinct = (class, damage kinds, outcome classes) hash; non-trivial = at least one damaged image loaded";
  }
  std::string exhaustiveNote() const override { return "thorough tier enumerates every byte prefix of each sampled file (exhaustive per file, not over files)"; }
  std::vector<std::string> realComponents() const override
  {
    return {"every _serialize/_deserialize pair", "ASerializable record readers/writers", "createFromNF factories and _fileOpenRead tag check", "libstdc++ streams"};
  }
  std::vector<std::string> stubComponents() const override
  {
    return {"disk (in-memory byte store with write log; images materialised in /dev/shm for the path API)", "crash and corruption model", "allocator budget (operator new replacement)", "message sinks"};
  }
  std::vector<std::string> assumptions() const override
  {
    return {"an exception leaving a loader counts as a crash (no exception translation in the SWIG layers)",
            "a damaged file that still parses may yield a different but valid object"};
  }
  Plan generate(uint64_t seed, long run, const Tier& t) override
  {
    Plan p;
    p.prop = "C09";
    p.seed = seed;
    p.run = run;
    Rng r = stream(seed, "C09", run, "shape");
    const auto& A = adapters();
    Op o;
    o.kind = "obj";
    {
      size_t ntot = A.size() + formats().size();
      size_t which = (size_t)(run % (long)ntot);
      o.s = {which < A.size() ? A[which].name : formats()[which - A.size()].name}; // round robin over classes and formats
    }
    o.i = {r.range(1, 1000000)};
    Op s;
    s.kind = "sweep";
    s.i = {t.thorough ? -1 : 48, t.thorough ? 120 : 40, r.range(1, 1000000)};
    p.ops = {o, s};
    static const long bs[] = {1, 7, 64, 4096};
    p.setKnob("bufsz", bs[r.below(4)]);
    static const long cs[] = {1, 7, 64, 4096};
    p.setKnob("chunk", cs[r.below(4)]);
    return p;
  }
  void execute(const Plan& p, Ctx& c) override { execSweep(p, c, 0); }

  RunResult runPlan(const Plan& p) override
  {
    RunResult rr;
    bool single = false;
    for (auto& o : p.ops) if (o.kind == "damage") single = true;
    long start = 0;
    int restarts = 0;
    while (true)
    {
      ChildOutcome co = runChild([&](Ctx& c) { execSweep(p, c, start); }, 20);
      size_t before = rr.viol.size();
      foldChild(co, rr);
      // which damage was in flight / which produced each violation
      long total = -1, lastIdx = -1;
      std::string lastB;
      bool loaderReturned = false; // the loader of the damage in flight had returned when the child ended
      std::vector<std::string> bOf; // B line preceding each V line
      for (auto& l : co.lines)
      {
        if (l.rfind("S total ", 0) == 0) total = atol(l.c_str() + 8);
        if (l.rfind("B ", 0) == 0 && l.find(" load.") != std::string::npos) { lastB = l; lastIdx = atol(l.c_str() + 2); loaderReturned = false; }
        if (l.rfind("P loader-returned", 0) == 0) loaderReturned = true;
        if (l[0] == 'V') bOf.push_back(lastB);
      }
      auto derive = [&](const std::string& bline) {
        Plan q = p;
        q.ops.clear();
        for (auto& o : p.ops) if (o.kind == "obj") q.ops.push_back(o);
        Op d;
        d.kind = "damage";
        Op l;
        l.kind = "load";
        size_t dp = bline.find("dmg=");
        size_t mp = bline.find("mode=");
        if (dp == std::string::npos || mp == std::string::npos) return std::string();
        std::string dm = bline.substr(dp + 4, mp - dp - 5);
        std::istringstream ds(dm);
        std::string nm, a, b;
        std::getline(ds, nm, ',');
        std::getline(ds, a, ',');
        std::getline(ds, b, ',');
        int kind = 0;
        for (int k = 0; k < 17; k++) if (nm == DMG[k]) kind = k;
        d.i = {kind, atol(a.c_str()), atol(b.c_str()), 0};
        l.i = {atol(bline.c_str() + mp + 5)};
        q.ops.push_back(d);
        q.ops.push_back(l);
        return q.toText();
      };
      if (!single)
        for (size_t k = before, j = 0; k < rr.viol.size() && j < bOf.size(); k++, j++) rr.viol[k].replay = derive(bOf[j]);
      Violation v;
      if (deathViolation("C09", co, v))
      {
        // The watchdog after the loader has returned measures the judge's own queries on the survivor (a getter looping
        // over 2^31 empty columns ...): "never hangs" is about the loader, so this is a reach probe, not a verdict.
        bool judgeTimeout = (co.cls == "timeout" && loaderReturned);
        if (judgeTimeout) rr.counters["probe.watchdog-while-querying-survivor"]++;
        if (co.cls == "exit-80") { v.sig = "C09|budget-steps|" + co.lastKind; v.detail = "loader kept reading after end of file (10000 reads at EOF)"; }
        if (co.cls == "timeout" && !lastB.empty())
        {
          // a loader that does not return: the kind of damage is part of the signature (one recorded slowness must not
          // cover every other way of hanging the same loader)
          size_t dp = lastB.find("dmg=");
          if (dp != std::string::npos) { size_t e = lastB.find(',', dp); v.sig += "|dmg=" + lastB.substr(dp + 4, e == std::string::npos ? std::string::npos : e - dp - 4); }
        }
        if (!single && !lastB.empty()) v.replay = derive(lastB);
        if (!judgeTimeout) rr.viol.push_back(v);
        if (single || lastIdx < 0 || total < 0) break;
        start = lastIdx + 1;
        if (start >= total || ++restarts > 25) break;
        continue;
      }
      break;
    }
    return rr;
  }
};

// ================================================================ C08
void execRoundTrip(const Plan& p, Ctx& c)
{
  childInit();
  g_storeEventFd = c.fd;
  const Op* oop = nullptr;
  const Op* rop = nullptr;
  for (auto& o : p.ops)
  {
    if (o.kind == "obj") oop = &o;
    if (o.kind == "roundtrip") rop = &o;
  }
  if (!oop || !rop) { c.line("Z plan"); return; }
  const std::string P = "C08|";
  size_t bufsz = (size_t)p.knob("bufsz", 64);
  size_t chunk = (size_t)p.knob("chunk", 4096);
  if (const Fmt* fm = findFmt(oop->S(0)))
  {
    // grid exchange formats that can be both written and read: same geometry and values (to the 6 digits they print)
    c.begin(0, "obj");
    std::unique_ptr<Db> orig;
    std::string image;
    if (!fmtMake(*fm, *oop, orig, image)) { c.violation(P + "write-failed|" + fm->name, "the library writer refused a generated grid"); return; }
    c.end(0, Digest().hex());
    c.begin(1, "roundtrip." + fm->name);
    c.fp(fm->name);
    std::string path = scratchDir() + "/fmtimg.dat";
    writeFileRaw(path, image);
    std::unique_ptr<Db> back(fmtLoad(*fm, *oop, path));
    if (!back) { c.violation(P + "load-failed|" + fm->name + "|failed", "the file just written is refused by the reader"); return; }
    DbGrid* g0 = dynamic_cast<DbGrid*>(orig.get());
    DbGrid* g1 = dynamic_cast<DbGrid*>(back.get());
    if (!g0 || !g1) { c.violation(P + "describe-differs|" + fm->name + "|not-a-grid", "reader did not return a grid"); return; }
    // a format with a fixed number of axes (IfpEn: 3) returns the extra axes with a single node
    if (g1->getNDim() < g0->getNDim()) { c.violation(P + "describe-differs|" + fm->name + "|ndim", "space dimension reduced"); return; }
    for (int d = g0->getNDim(); d < g1->getNDim(); d++)
      if (g1->getNX(d) != 1) { c.violation(P + "describe-differs|" + fm->name + "|extra-axis", "extra axis with several nodes"); return; }
    for (int d = 0; d < g0->getNDim(); d++)
    {
      char b[200];
      if (g0->getNX(d) != g1->getNX(d)) { snprintf(b, sizeof b, "nx[%d] %d vs %d", d, g0->getNX(d), g1->getNX(d)); c.violation(P + "describe-differs|" + fm->name + "|nx", b); return; }
      if (fm->name == "fmt.Bmp") continue; // an image stores pixels only: mesh and origin are not part of the format
      if (std::fabs(g0->getDX(d) - g1->getDX(d)) > 1e-5 * (1 + std::fabs(g0->getDX(d)))) { snprintf(b, sizeof b, "dx[%d] %.10g vs %.10g", d, g0->getDX(d), g1->getDX(d)); c.violation(P + "describe-differs|" + fm->name + "|dx", b); return; }
      if (std::fabs(g0->getX0(d) - g1->getX0(d)) > 1e-5 * (1 + std::fabs(g0->getX0(d)))) { snprintf(b, sizeof b, "x0[%d] %.10g vs %.10g", d, g0->getX0(d), g1->getX0(d)); c.violation(P + "describe-differs|" + fm->name + "|x0", b); return; }
    }
    if (fm->name != "fmt.Bmp")
    {
      VectorDouble v0 = g0->getColumnByColIdx(g0->getColumnNumber() - 1, false, false);
      VectorDouble v1 = g1->getColumnByColIdx(g1->getColumnNumber() - 1, false, false);
      if (v0.size() != v1.size()) { c.violation(P + "describe-differs|" + fm->name + "|values.size", "node count changed"); return; }
      for (size_t i = 0; i < v0.size(); i++)
      {
        bool u0 = isUndef(v0[i]), u1 = isUndef(v1[i]);
        if (u0 != u1 || (!u0 && std::fabs(v0[i] - v1[i]) > 1e-5 * (1 + std::fabs(v0[i]))))
        {
          char b[200];
          snprintf(b, sizeof b, "node %zu: %.10g vs %.10g", i, v0[i], v1[i]);
          c.violation(P + "describe-differs|" + fm->name + "|values", b);
          return;
        }
      }
    }
    c.count("probe.format-roundtrip-equivalent");
    c.end(1, Digest().hex());
    c.nontrivial();
    return;
  }
  c.begin(0, "obj");
  Made m = makeObject(*oop, bufsz);
  const std::string& cn = m.ad->name;
  if (!m.ok) { c.violation(P + "write-failed|" + cn, "serialize returned false on a generated object"); return; }
  c.end(0, Digest().hex());
  int mode = (int)rop->I(0);
  c.fp(cn + "/" + std::to_string(mode));
  if (mode == 5)
  {
    // history of saves in one process: a sibling object is written first (for the Db family: the same table with one
    // column deleted and another appended, i.e. same column count, other identifiers), then the observed one
    std::unique_ptr<ASerializable> sib;
    if (Db* dbo = dynamic_cast<Db*>(m.obj.get()))
    {
      Db* cp = dbo->clone();
      if (cp->getColumnNumber() > 1)
      {
        cp->deleteColumnByColIdx(cp->getColumnNumber() / 2);
        cp->addColumnsByConstant(1, 4.25, "sibling");
      }
      sib.reset(cp);
      // the observed object itself is the edited one half of the time
      if (rop->I(1) % 2 == 0) { std::swap(sib, m.obj); }
    }
    else
    {
      Op o2 = *oop;
      o2.i[0] = oop->I(0) + 1;
      Made other = makeObject(o2, bufsz);
      if (other.ok) sib = std::move(other.obj);
    }
    if (sib)
    {
      std::string sb;
      std::vector<std::pair<size_t, size_t>> sev;
      writeObject(sib.get(), bufsz, sb, sev);
      c.count("fault.sibling-saved-first");
    }
    if (!writeObject(m.obj.get(), bufsz, m.body, m.events)) { c.violation(P + "write-failed|" + cn, "serialize returned false after a sibling save"); return; }
    mode = 0;
  }
  Desc d0, p0;
  try
  {
    m.ad->describe(m.obj.get(), d0);
    dropTransient(d0);
    neutraliseTransient(m.obj.get());
    m.ad->probe(m.obj.get(), p0);
  }
  catch (const std::exception& e) { c.line(std::string("Z adapter-threw-on-original ") + e.what()); return; }
  {
    std::string bad = m.ad->consistent(m.obj.get());
    if (!bad.empty()) { c.line("Z generated-object-inconsistent " + cn + " " + bad); return; }
  }
  c.begin(1, "roundtrip." + cn);
  std::unique_ptr<ASerializable> cur;
  std::string gen1 = m.body, genN;
  int rounds = (mode == 2) ? 3 : 1;
  const ASerializable* src = m.obj.get();
  for (int round = 0; round < rounds; round++)
  {
    std::string bytes;
    std::vector<std::pair<size_t, size_t>> ev;
    LoadOutcome lo;
    if (mode == 1 || mode == 3)
    {
      if (!m.ad->fromNF) { c.end(1, "skip-no-factory"); return; }
      std::string dir = scratchDir();
      // history of the global container/prefix settings between the two calls
      ASerializable::setContainerName(false, dir + "/");
      ASerializable::setPrefixName(rop->I(1) % 2 ? "pre-" : "");
      if (rop->I(1) % 2 == 0) ASerializable::unsetPrefixName();
      bool okw = src->dumpToNF("rt.nf", false);
      if (!okw) { c.violation(P + "write-failed|" + cn, "dumpToNF returned false"); return; }
      memBudgetStart(64u << 20, 512u << 20);
      try
      {
        if (mode == 3)
        {
          // ill-formed history: prefix changed between save and load -> the file is not there: must fail cleanly
          ASerializable::setPrefixName("other-");
          ASerializable* o = m.ad->fromNF("rt.nf");
          ASerializable::unsetPrefixName();
          ASerializable::unsetContainerName();
          memBudgetStop();
          if (o != nullptr) { delete o; c.violation(P + "loaded-nonexistent-file|" + cn, "createFromNF returned an object for a name that was never written"); }
          else c.count("probe.missing-file-refused");
          c.end(1, "refused");
          c.nontrivial();
          return;
        }
        ASerializable* o = m.ad->fromNF("rt.nf");
        if (o) { lo.cls = "object"; lo.obj.reset(o); } else lo.cls = "failed";
      }
      catch (const std::exception& e) { lo.cls = "exception"; lo.what = e.what(); }
      memBudgetStop();
      ASerializable::unsetPrefixName();
      ASerializable::unsetContainerName();
      // bytes of this generation for the fixpoint test come from the stream seam
      writeObject(src, bufsz, bytes, ev);
    }
    else
    {
      if (!writeObject(src, bufsz, bytes, ev)) { c.violation(P + "write-failed|" + cn, "serialize returned false (round " + std::to_string(round) + ")"); return; }
      lo = loadImage(*m.ad, bytes, 0, mode == 4 ? 1 : chunk, -1, "");
    }
    if (round == 0) gen1 = bytes;
    genN = bytes;
    if (lo.cls != "object")
    {
      c.violation(P + "load-failed|" + cn + "|" + lo.cls + (lo.what.empty() ? "" : ":" + firstWord(lo.what)), "reload of a just-written " + cn + " (round " + std::to_string(round) + ", mode " + std::to_string(mode) + ") ended as " + lo.cls + " " + lo.what);
      return;
    }
    cur = std::move(lo.obj);
    src = cur.get();
  }
  // equivalence of the last generation with the original
  try
  {
    Desc d1, p1;
    m.ad->describe(cur.get(), d1);
    dropTransient(d1);
    // every differing parameter is reported (one signature per key stem), so that a recorded finding on one
    // field of a class does not hide a new difference on another field
    bool anyDiff = false;
    std::set<std::string> seenStems;
    for (int guard = 0; guard < 12; guard++)
    {
      std::string df = descDiff(d0, d1, 5e-15 * rounds);
      if (df.empty()) break;
      anyDiff = true;
      std::string key = firstWord(df);
      std::string stem = keyStem(key);
      if (key == "entry") { c.violation(P + "describe-differs|" + cn + "|structure", df); break; }
      if (seenStems.insert(stem).second) c.violation(P + "describe-differs|" + cn + "|" + stem, df);
      // drop every entry of that stem on both sides and look again
      auto base = [](const std::string& k) { size_t p = k.find_first_of("[."); return p == std::string::npos ? k : k.substr(0, p); };
      std::string b0 = base(stem);
      auto strip = [&](Desc& d) {
        std::vector<Desc::Entry> keep;
        for (auto& e : d.e) if (base(keyStem(e.key)) != b0) keep.push_back(e);
        bool changed = keep.size() != d.e.size();
        d.e = keep;
        return changed;
      };
      bool c0 = strip(d0), c1 = strip(d1);
      if (!c0 && !c1) break; // structural difference (sizes): stop
    }
    if (anyDiff) return;
    std::string bad = m.ad->consistent(cur.get());
    if (!bad.empty()) { c.violation(P + "reloaded-inconsistent|" + cn + "|" + firstWord(bad), bad); return; }
    neutraliseTransient(cur.get());
    m.ad->probe(cur.get(), p1);
    {
      // query answers: a parameter rounded at its 15th digit may move a computed value by more than 1e-15 and may flip a
      // discrete answer (a rank, a side of a fault): doubles are compared to 1e-9, discrete answers only when every
      // parameter came back bit-identical; the strict comparison is made between generations 1 and 2 below
      Desc e0, e1;
      m.ad->describe(m.obj.get(), e0);
      m.ad->describe(cur.get(), e1);
      bool exactParams = descExact(e0, e1).empty();
      Desc q0 = p0, q1 = p1;
      if (!exactParams)
      {
        auto onlyDoubles = [](Desc& d) { std::vector<Desc::Entry> k; for (auto& e : d.e) if (e.kind == 1) k.push_back(e); d.e = k; };
        bool sameShape = q0.e.size() == q1.e.size();
        for (size_t i = 0; sameShape && i < q0.e.size(); i++) sameShape = q0.e[i].key == q1.e[i].key && q0.e[i].kind == q1.e[i].kind;
        if (sameShape) { onlyDoubles(q0); onlyDoubles(q1); c.count("skipped.discrete-probe-after-rounding"); }
        else { q0.e.clear(); q1.e.clear(); c.count("skipped.probe-shape-after-rounding"); }
      }
      // computed answers share the scale of their vector (an oscillating covariance crosses zero: an entry of 1e-7
      // among entries of order 1 is not known to 1e-9 of itself): each double is given the absolute slack 1e-9 x the
      // largest magnitude of its vector
      {
        std::map<std::string, double> vmax;
        auto stem = [](const std::string& k) { size_t b = k.find('['); return b == std::string::npos ? k : k.substr(0, b); };
        for (auto* q : {&q0, &q1}) for (auto& e : q->e) if (e.kind == 1 && std::isfinite(e.d) && std::fabs(e.d) < 1e29) { double& m = vmax[stem(e.key)]; m = std::max(m, std::fabs(e.d)); }
        for (size_t i = 0; i < q0.e.size() && i < q1.e.size(); i++)
        {
          Desc::Entry &x = q0.e[i], &y = q1.e[i];
          if (x.kind != 1 || y.kind != 1 || x.key != y.key || x.key.find('[') == std::string::npos) continue;
          if (!std::isfinite(x.d) || !std::isfinite(y.d) || std::fabs(x.d) >= 1e29 || std::fabs(y.d) >= 1e29) continue;
          if (std::fabs(x.d - y.d) <= 1e-9 * rounds * vmax[stem(x.key)]) y.d = x.d;
        }
      }
      std::string df = descDiff(q0, q1, 1e-9 * rounds, 1e-300);
      if (!df.empty() && getenv("SIMKIT_DEBUG_DESC"))
      {
        // debugging aid for replays: parameters of both objects, appended to the named file
        FILE* dbg = fopen(getenv("SIMKIT_DEBUG_DESC"), "a");
        for (size_t i = 0; dbg && i < e0.e.size() && i < e1.e.size(); i++)
          fprintf(dbg, "desc %s : %ld %.17g %s | %ld %.17g %s\n", e0.e[i].key.c_str(), e0.e[i].i, e0.e[i].d, e0.e[i].s.c_str(), e1.e[i].i, e1.e[i].d, e1.e[i].s.c_str());
        for (size_t i = 0; dbg && i < p0.e.size() && i < p1.e.size(); i++)
          fprintf(dbg, "probe %s : %ld %.17g | %ld %.17g\n", p0.e[i].key.c_str(), p0.e[i].i, p0.e[i].d, p1.e[i].i, p1.e[i].d);
        if (dbg) fclose(dbg);
      }
      if (!df.empty()) { c.violation(P + "probe-differs|" + cn + "|" + keyStem(firstWord(df)), df); return; }
    }
    {
      // generation 1 -> generation 2: every value of generation 1 is a 15-digit decimal, so the second reload must give
      // back bit-identical parameters and identical answers, discrete ones included
      std::string bytesG;
      std::vector<std::pair<size_t, size_t>> evG;
      writeObject(cur.get(), 4096, bytesG, evG);
      LoadOutcome l2 = loadImage(*m.ad, bytesG, 0, 4096, -1, "");
      if (l2.cls != "object") { c.violation(P + "load-failed|" + cn + "|second-generation", "the file written from a reloaded object is refused"); return; }
      Desc g1, g2, pg1, pg2;
      m.ad->describe(cur.get(), g1);
      m.ad->describe(l2.obj.get(), g2);
      dropTransient(g1);
      dropTransient(g2);
      std::string dg = descExact(g1, g2);
      if (!dg.empty()) { c.violation(P + "generation2-differs|" + cn + "|" + keyStem(firstWord(dg)), dg); return; }
      neutraliseTransient(l2.obj.get());
      m.ad->probe(cur.get(), pg1);
      m.ad->probe(l2.obj.get(), pg2);
      dg = descExact(pg1, pg2);
      if (!dg.empty()) { c.violation(P + "generation2-probe-differs|" + cn + "|" + keyStem(firstWord(dg)), dg); return; }
      c.count("probe.generation2-identical");
    }
    // writing it again reproduces the same file
    std::string bytes2;
    std::vector<std::pair<size_t, size_t>> ev;
    writeObject(cur.get(), 4096, bytes2, ev);
    if (bytes2 != gen1)
    {
      size_t k = 0;
      while (k < bytes2.size() && k < gen1.size() && bytes2[k] == gen1[k]) k++;
      std::string a = gen1.substr(k > 20 ? k - 20 : 0, 60), b = bytes2.substr(k > 20 ? k - 20 : 0, 60);
      for (auto& ch : a) if (ch == '\n') ch = '|';
      for (auto& ch : b) if (ch == '\n') ch = '|';
      c.violation(P + "not-fixpoint|" + cn, "second-generation file differs at byte " + std::to_string(k) + ": '" + a + "' vs '" + b + "'");
      return;
    }
  }
  catch (const std::exception& e) { c.violation(P + "unusable-reloaded|" + cn + "|" + firstWord(e.what()), e.what()); return; }
  c.count("probe.roundtrip-equivalent");
  c.end(1, Digest().hex());
  c.nontrivial();
}

struct StoreC08 : Workload
{
  std::string prop() const override { return "C08"; }
  long defaultRuns(const Tier& t) const override { return t.thorough ? 60000 : 1500; }
  std::string rule() const override
  {
    return "a run = one generated instance of one serialisable class (round robin over classes, parameters from the PRNG) saved and reloaded through: the stream "
           "seam (write buffer 1/7/64/4096 B, reads in chunks of 1..4096 B), the path API with container/prefix set, a save-load chain of 3 generations, or "
           "an ill-formed container/prefix history (must be refused); oracle = getter table equality (integers/strings exact, doubles to 5e-15 relative, "
           "undefined stays undefined), class invariants, probe queries, second-generation bytes identical; distinct = (class, mode, outcome) + parameter hash";
  }
  std::vector<std::string> realComponents() const override { return {"every _serialize/_deserialize pair", "dumpToNF/createFromNF", "buildFileName container/prefix handling"}; }
  std::vector<std::string> stubComponents() const override { return {"disk (in-memory byte store; scratch directory in /dev/shm for the path API)", "message sinks"}; }
  Plan generate(uint64_t seed, long run, const Tier&) override
  {
    Plan p;
    p.prop = "C08";
    p.seed = seed;
    p.run = run;
    Rng r = stream(seed, "C08", run, "shape");
    const auto& A = adapters();
    Op o;
    o.kind = "obj";
    {
      // grid exchange formats with both a writer and a reader join the round robin
      static const char* gridFmts[] = {"fmt.Zycor", "fmt.IfpEn", "fmt.Bmp"};
      size_t ntot = A.size() + 3;
      size_t which = (size_t)(run % (long)ntot);
      o.s = {which < A.size() ? A[which].name : std::string(gridFmts[which - A.size()])};
    }
    o.i = {r.range(1, 1000000)};
    Op t;
    t.kind = "roundtrip";
    double u = r.unit();
    t.i = {u < 0.35 ? 0 : u < 0.5 ? 1 : u < 0.65 ? 2 : u < 0.7 ? 3 : u < 0.8 ? 4 : 5, r.range(0, 9)};
    p.ops = {o, t};
    static const long bs[] = {1, 7, 64, 4096};
    p.setKnob("bufsz", bs[r.below(4)]);
    p.setKnob("chunk", bs[r.below(4)]);
    return p;
  }
  void execute(const Plan& p, Ctx& c) override
  {
    execRoundTrip(p, c);
    // fingerprint includes the object's parameter hash so that distinct objects count as distinct cases
    for (auto& o : p.ops) if (o.kind == "obj") c.fp(std::to_string(o.I(0)));
  }
};

} // namespace

namespace sk {
Workload* makeWorkload_C08() { return new StoreC08(); }
Workload* makeWorkload_C09() { return new StoreC09(); }
}
