// Class adapters for the `store` workloads: see store_classes.hpp.
// Every random choice comes from the sk::Rng given to make(); the probes never touch the
// library's global random generator.
#include "store_classes.hpp"

#include "geoslib_define.h"
#include "Basic/VectorNumT.hpp"
#include "Basic/VectorHelper.hpp"
#include "Basic/Grid.hpp"
#include "Basic/PolyLine2D.hpp"
#include "Basic/Indirection.hpp"
#include "Enum/ELoc.hpp"
#include "Enum/ELoadBy.hpp"
#include "Enum/ECov.hpp"
#include "Enum/ECalcVario.hpp"
#include "Enum/ERule.hpp"
#include "Space/SpaceRN.hpp"
#include "Db/Db.hpp"
#include "Db/DbGrid.hpp"
#include "Db/DbLine.hpp"
#include "Db/DbGraphO.hpp"
#include "Db/DbMeshTurbo.hpp"
#include "Db/DbMeshStandard.hpp"
#include "Matrix/NF_Triplet.hpp"
#include "Matrix/MatrixSparse.hpp"
#include "Matrix/MatrixRectangular.hpp"
#include "Matrix/MatrixInt.hpp"
#include "Matrix/Table.hpp"
#include "Model/Model.hpp"
#include "Covariances/CovAniso.hpp"
#include "Drifts/ADrift.hpp"
#include "Neigh/ANeigh.hpp"
#include "Neigh/NeighUnique.hpp"
#include "Neigh/NeighMoving.hpp"
#include "Neigh/NeighBench.hpp"
#include "Neigh/NeighCell.hpp"
#include "Neigh/NeighImage.hpp"
#include "Variogram/Vario.hpp"
#include "Variogram/VarioParam.hpp"
#include "Variogram/DirParam.hpp"
#include "Polygon/Polygons.hpp"
#include "Polygon/PolyElem.hpp"
#include "Anamorphosis/AnamHermite.hpp"
#include "Anamorphosis/AnamEmpirical.hpp"
#include "Anamorphosis/AnamDiscreteDD.hpp"
#include "Anamorphosis/AnamDiscreteIR.hpp"
#include "Mesh/MeshETurbo.hpp"
#include "Mesh/MeshEStandard.hpp"
#include "LithoRule/Rule.hpp"
#include "LithoRule/RuleShift.hpp"
#include "LithoRule/RuleShadow.hpp"
#include "Mesh/MeshSpherical.hpp"
#include "LithoRule/Node.hpp"
#include "Faults/Faults.hpp"
#include "Fractures/FracEnviron.hpp"
#include "Fractures/FracFamily.hpp"
#include "Fractures/FracFault.hpp"

#include <algorithm>
#include <array>
#include <cfloat>
#include <cmath>
#include <set>

namespace sk {

// =========================================================================== descDiff
static bool undefD(double x) { return std::isnan(x) || FFFF(x); }

static std::string entryText(const Desc::Entry& x)
{
  char b[64];
  if (x.kind == 0) { snprintf(b, sizeof b, "%ld", x.i); return b; }
  if (x.kind == 1) { snprintf(b, sizeof b, "%.17g", x.d); return b; }
  return "\"" + x.s + "\"";
}

std::string descDiff(const Desc& a, const Desc& b, double relTol, double absTol)
{
  size_t n = std::min(a.e.size(), b.e.size());
  for (size_t k = 0; k < n; k++)
  {
    const Desc::Entry& x = a.e[k];
    const Desc::Entry& y = b.e[k];
    if (x.key != y.key)
      return "entry #" + std::to_string(k) + ": key '" + x.key + "'=" + entryText(x) + " vs key '" + y.key + "'=" + entryText(y);
    bool same = (x.kind == y.kind);
    if (same)
    {
      if (x.kind == 0) same = (x.i == y.i);
      else if (x.kind == 2) same = (x.s == y.s);
      else
      {
        bool ua = undefD(x.d), ub = undefD(y.d);
        if (ua || ub) same = (ua && ub);
        else if (x.d == y.d) same = true;
        else if (std::isinf(x.d) || std::isinf(y.d)) same = false;
        else
        {
          // the few ulps cover the representation error of the bound itself
          double m = std::max(std::fabs(x.d), std::fabs(y.d));
          same = std::fabs(x.d - y.d) <= relTol * m + absTol + 4. * DBL_EPSILON * m;
        }
      }
    }
    if (!same) return x.key + ": " + entryText(x) + " vs " + entryText(y);
  }
  if (a.e.size() != b.e.size())
  {
    const Desc& l = a.e.size() > b.e.size() ? a : b;
    return "entry count " + std::to_string(a.e.size()) + " vs " + std::to_string(b.e.size()) + " (first unmatched key '" +
           l.e[n].key + "'=" + entryText(l.e[n]) + " on " + (a.e.size() > b.e.size() ? "first" : "second") + " side)";
  }
  return "";
}

namespace {

// =========================================================================== generators
const char* const WORDS[] = {"alpha", "bravo", "charlie", "delta", "echo", "foxtrot", "golf", "hotel", "india", "juliet",
                             "kilo", "lima", "mike", "nova", "oscar", "papa", "quebec", "romeo", "sierra", "tango"};
const int NWORDS = 20;

// picks distinct lowercase words (never one containing another)
struct NamePool
{
  std::vector<int> left;
  NamePool() { for (int i = 0; i < NWORDS; i++) left.push_back(i); }
  std::string take(Rng& r)
  {
    if (left.empty()) return "zulu";
    long k = r.below((long)left.size());
    std::string s = WORDS[left[k]];
    left.erase(left.begin() + k);
    return s;
  }
};

// a value for a data cell: mostly ordinary, sometimes undefined or extreme
double cellValue(Rng& r)
{
  long k = r.below(24);
  switch (k)
  {
    case 0: case 1: return TEST;
    case 2: return 1e-300;
    case 3: return 1e300;
    case 4: return -0.0;
    case 5: return 0.;
    case 6: return (double)r.range(-1000, 1000);
    case 7: return -1e-300;
    case 8: return 123456789012345.;
    case 9: return -9.87654321e-17;
    case 10: return 1e29;
    default: return 10. * r.gauss();
  }
}

// distinct locations: jittered, never equal in the first coordinate
VectorVectorDouble distinctPoints(Rng& r, int n, int ndim, double ext = 10.)
{
  VectorVectorDouble p(n, VectorDouble(ndim));
  for (int i = 0; i < n; i++)
    for (int d = 0; d < ndim; d++) p[i][d] = r.uniform(0., ext) + (d == 0 ? 1e-3 * (i + 1) : 0.);
  return p;
}

VectorString coordNames(int ndim)
{
  static const char* C[] = {"east", "north", "elev"};
  VectorString v;
  for (int d = 0; d < ndim; d++) v.push_back(C[d]);
  return v;
}
VectorString coordLocs(int ndim)
{
  VectorString v;
  for (int d = 0; d < ndim; d++) v.push_back("x" + std::to_string(d + 1));
  return v;
}

bool locIsUnique(int v)
{
  // w code sel dom adir adip size bu bd layer date : only one item allowed
  static const int U[] = {8, 9, 10, 11, 13, 14, 15, 16, 17, 19, 25};
  for (int u : U) if (u == v) return true;
  return false;
}

// table of samples: coordinates (distinct) then nvar value columns; order SAMPLE or COLUMN
struct SampleTab
{
  int nech = 0, ndim = 0, nvar = 0;
  VectorDouble tab;
  VectorString names, locs;
  ELoadBy order = ELoadBy::SAMPLE;
};
SampleTab makeSampleTab(Rng& r, NamePool& np, int nech, int ndim, int nvar, bool withLocZ)
{
  SampleTab s;
  s.nech = nech; s.ndim = ndim; s.nvar = nvar;
  VectorVectorDouble p = distinctPoints(r, nech, ndim);
  s.names = coordNames(ndim);
  s.locs = coordLocs(ndim);
  int nz = 0;
  for (int v = 0; v < nvar; v++)
  {
    s.names.push_back(np.take(r));
    if (withLocZ && r.chance(0.5)) s.locs.push_back("z" + std::to_string(++nz));
    else s.locs.push_back("NA");
  }
  int ncol = ndim + nvar;
  VectorVectorDouble cols(ncol, VectorDouble(nech));
  for (int i = 0; i < nech; i++)
  {
    for (int d = 0; d < ndim; d++) cols[d][i] = p[i][d];
    for (int v = 0; v < nvar; v++) cols[ndim + v][i] = cellValue(r);
  }
  bool bySample = r.chance(0.5);
  s.order = bySample ? ELoadBy::SAMPLE : ELoadBy::COLUMN;
  if (bySample)
    for (int i = 0; i < nech; i++) for (int c = 0; c < ncol; c++) s.tab.push_back(cols[c][i]);
  else
    for (int c = 0; c < ncol; c++) for (int i = 0; i < nech; i++) s.tab.push_back(cols[c][i]);
  return s;
}

// add 0..3 more columns carrying any locator type (consecutive ranks per type), maybe a selection
void decorateDb(Rng& r, NamePool& np, Db* db, bool allowX = false)
{
  int nech = db->getSampleNumber();
  int nextra = (int)r.below(4);
  for (int k = 0; k < nextra; k++)
  {
    int lv = (int)r.below(Db::getNEloc());
    if (lv == 0 && !allowX) lv = 1;
    if (lv == 10) lv = 2; // selections are added below
    ELoc t = ELoc::fromValue(lv);
    int have = db->getLocatorNumber(t);
    if (locIsUnique(lv) && have > 0) t = ELoc::UNKNOWN;
    VectorDouble v(nech);
    for (auto& x : v) x = cellValue(r);
    if (r.chance(0.3)) for (auto& x : v) x = (double)r.range(0, 3);
    db->addColumns(v, np.take(r), t, t == ELoc::UNKNOWN ? 0 : have);
  }
  if (r.chance(0.25))
  {
    VectorDouble s(nech);
    for (auto& x : s) x = r.chance(0.7) ? 1. : 0.;
    db->addSelection(s, np.take(r));
  }
  // sometimes move an existing plain column to another role
  if (db->getColumnNumber() > 0 && r.chance(0.2))
  {
    int ic = (int)r.below(db->getColumnNumber());
    ELoc t; int rk;
    db->getLocatorByColIdx(ic, &t, &rk);
    if (t == ELoc::UNKNOWN)
    {
      int lv = (int)r.range(1, Db::getNEloc() - 1);
      if (lv == 10) lv = 3;
      ELoc nt = ELoc::fromValue(lv);
      if (!(locIsUnique(lv) && db->getLocatorNumber(nt) > 0)) db->setLocatorByColIdx(ic, nt, db->getLocatorNumber(nt));
    }
  }
}

struct GridSpec { VectorInt nx; VectorDouble dx, x0, angles; int ndim = 0; int ntot = 1; };
GridSpec makeGridSpec(Rng& r, int maxNodes = 200, int minNx = 1)
{
  GridSpec g;
  g.ndim = (int)r.range(1, 3);
  int cap = g.ndim == 1 ? 30 : (g.ndim == 2 ? 12 : 5);
  for (int d = 0; d < g.ndim; d++)
  {
    int n = (int)r.range(minNx, cap);
    while (g.ntot * n > maxNodes && n > minNx) n--;
    g.nx.push_back(n);
    g.ntot *= n;
    g.dx.push_back(r.chance(0.3) ? 1. : r.uniform(0.1, 7.));
    g.x0.push_back(r.chance(0.3) ? 0. : r.uniform(-100., 100.));
  }
  if (g.ndim >= 2 && r.chance(0.6))
  {
    g.angles.resize(g.ndim, 0.);
    g.angles[0] = r.chance(0.3) ? (double)r.range(-90, 90) : r.uniform(-180., 180.);
    if (g.ndim == 3 && r.chance(0.5)) { g.angles[1] = r.uniform(-80., 80.); g.angles[2] = r.uniform(-80., 80.); }
  }
  return g;
}

// =========================================================================== Db family: describe / consistent
void describeDbCommon(const Db* db, Desc& d)
{
  int ncol = db->getColumnNumber();
  int nech = db->getSampleNumber();
  d.I("ncol", ncol);
  d.I("nech", nech);
  d.I("ndim", db->getNDim());
  d.VS("names", db->getAllNames());
  for (int ic = 0; ic < ncol; ic++)
  {
    std::string k = "col" + std::to_string(ic);
    ELoc t; int rk;
    db->getLocatorByColIdx(ic, &t, &rk);
    d.I(k + ".loctype", t.getValue());
    d.I(k + ".locrank", rk);
    d.VD(k + ".v", db->getColumnByColIdx(ic, false, false));
  }
  for (int il = 0; il < Db::getNEloc(); il++)
  {
    int n = db->getLocatorNumber(ELoc::fromValue(il));
    if (n != 0) d.I("nloc." + std::to_string(il), n);
  }
}
void describeGridPart(const DbGrid* g, Desc& d)
{
  int ndim = g->getNDim();
  d.I("grid.ndim", ndim);
  for (int k = 0; k < ndim; k++)
  {
    std::string s = std::to_string(k);
    d.I("grid.nx" + s, g->getNX(k));
    d.D("grid.dx" + s, g->getDX(k));
    d.D("grid.x0" + s, g->getX0(k));
  }
  d.VD("grid.angles", g->getAngles());
}
// Rules are of two kinds. Structural rules (sizes that agree, indices in range, one role per column, API-enforced
// refusals such as DbLine/DbGraphO::isConsistent, negative grid counts or meshes, polygons under 3 vertices, mesh
// corners outside the apices) hold for every object the API can build: a loader returning an object that breaks one is
// judged. Parameter-range rules (prefix "param: ") describe values the constructors accept without any check
// (tools/api_rules_audit.cpp lists the calls): they are counted as reach probes and never judged.
std::string consistentDbCommon(const Db* db)
{
  int ncol = db->getColumnNumber();
  int nech = db->getSampleNumber();
  if (ncol < 0 || nech < 0) return "negative dimensions";
  VectorString names = db->getAllNames();
  if ((int)names.size() != ncol) return "names count " + std::to_string(names.size()) + " != column count " + std::to_string(ncol);
  for (int i = 0; i < ncol; i++)
    for (int j = i + 1; j < ncol; j++)
      if (names[i] == names[j]) return "duplicate column name '" + names[i] + "'";
  for (int i = 0; i < ncol; i++)
    if ((int)db->getColumnByColIdx(i, false, false).size() != nech) return "column " + std::to_string(i) + " has wrong length";
  std::vector<int> seen(ncol, 0);
  for (int il = 0; il < Db::getNEloc(); il++)
  {
    ELoc t = ELoc::fromValue(il);
    int n = db->getLocatorNumber(t);
    if (n < 0) return "negative locator count";
    for (int rk = 0; rk < n; rk++)
    {
      int ic = db->getColIdxByLocator(t, rk);
      if (ic < 0 || ic >= ncol) return "locator " + std::to_string(il) + " rank " + std::to_string(rk) + " designates no column";
      if (seen[ic]++) return "column " + std::to_string(ic) + " carries two locators";
    }
  }
  return "";
}

// =========================================================================== Db family: make
ASerializable* makeDb(Rng& r)
{
  NamePool np;
  int ndim = (int)r.range(1, 3);
  int nech = r.chance(0.1) ? 1 : (int)r.range(2, 40);
  int nvar = (int)r.below(5);
  SampleTab s = makeSampleTab(r, np, nech, ndim, nvar, true);
  Db* db = Db::createFromSamples(nech, s.order, s.tab, s.names, s.locs, r.chance(0.5));
  decorateDb(r, np, db);
  return db;
}

ASerializable* makeDbGrid(Rng& r)
{
  NamePool np;
  GridSpec g = makeGridSpec(r);
  int nvar = (int)r.below(5);
  VectorDouble tab;
  VectorString names, locs;
  int nz = 0;
  for (int v = 0; v < nvar; v++)
  {
    names.push_back(np.take(r));
    locs.push_back(r.chance(0.5) ? "z" + std::to_string(++nz) : std::string("NA"));
  }
  bool bySample = r.chance(0.5);
  tab.resize((size_t)nvar * g.ntot);
  for (auto& x : tab) x = cellValue(r);
  DbGrid* db = DbGrid::create(g.nx, g.dx, g.x0, g.angles, bySample ? ELoadBy::SAMPLE : ELoadBy::COLUMN, tab, names, locs,
                              r.chance(0.5), r.chance(0.7));
  decorateDb(r, np, db);
  return db;
}

ASerializable* makeDbLine(Rng& r)
{
  NamePool np;
  int ndim = (int)r.range(1, 3);
  int nline = (int)r.range(1, 5);
  VectorInt counts;
  int nech = 0;
  for (int l = 0; l < nline; l++) { int c = (int)r.range(1, 8); counts.push_back(c); nech += c; }
  int nvar = (int)r.below(4);
  SampleTab s = makeSampleTab(r, np, nech, ndim, nvar, true);
  DbLine* db = nullptr;
  if (r.chance(0.5))
    db = DbLine::createFromSamples(nech, s.order, s.tab, counts, s.names, s.locs, r.chance(0.5));
  else
  {
    // samples of the lines are interleaved; order inside a line given by arbitrary increasing ranks
    VectorInt ids(nech), ranks(nech);
    std::vector<int> slots;
    for (int l = 0; l < nline; l++) for (int c = 0; c < counts[l]; c++) slots.push_back(10 * (l + 1));
    for (int i = nech - 1; i > 0; i--) std::swap(slots[i], slots[r.below(i + 1)]);
    for (int i = 0; i < nech; i++) { ids[i] = slots[i]; ranks[i] = (int)r.range(0, 1000) * 64 + i; }
    db = DbLine::createFromSamplesById(nech, s.order, s.tab, ids, ranks, s.names, s.locs, r.chance(0.5));
  }
  if (db == nullptr) db = DbLine::createFromSamples(nech, s.order, s.tab, counts, s.names, s.locs, true);
  decorateDb(r, np, db);
  return db;
}

ASerializable* makeDbGraphO(Rng& r)
{
  NamePool np;
  int ndim = (int)r.range(1, 3);
  int nech = (int)r.range(2, 25);
  int nvar = (int)r.below(4);
  SampleTab s = makeSampleTab(r, np, nech, ndim, nvar, true);
  NF_Triplet arcs;
  std::set<long> used;
  int narcs = (int)r.range(0, 2 * nech);
  for (int k = 0; k < narcs; k++)
  {
    int i = (int)r.below(nech - 1);
    int j = (int)r.range(i + 1, nech - 1);
    if (!used.insert((long)i * 1000 + j).second) continue;
    arcs.add(i, j, r.chance(0.3) ? 1. : r.uniform(0.1, 5.));
  }
  DbGraphO* db = DbGraphO::createFromSamples(nech, s.order, s.tab, arcs, s.names, s.locs, r.chance(0.5));
  decorateDb(r, np, db);
  return db;
}

ASerializable* makeDbMeshTurbo(Rng& r)
{
  NamePool np;
  GridSpec g = makeGridSpec(r, 120, 2);
  int nvar = (int)r.below(4);
  VectorDouble tab((size_t)nvar * g.ntot);
  for (auto& x : tab) x = cellValue(r);
  VectorString names, locs;
  int nz = 0;
  for (int v = 0; v < nvar; v++)
  {
    names.push_back(np.take(r));
    locs.push_back(r.chance(0.5) ? "z" + std::to_string(++nz) : std::string("NA"));
  }
  DbMeshTurbo* db = DbMeshTurbo::create(g.nx, g.dx, g.x0, g.angles, r.chance(0.5) ? ELoadBy::SAMPLE : ELoadBy::COLUMN, tab,
                                        names, locs, r.chance(0.5), false);
  decorateDb(r, np, db);
  return db;
}

// small valid meshing: apices (column major) and meshes (column major)
struct MeshSpec { int ndim = 2, napices = 0, nmesh = 0; VectorVectorDouble pts; std::vector<std::vector<int>> cells; };
MeshSpec makeMeshSpec(Rng& r)
{
  MeshSpec m;
  m.ndim = (int)r.range(1, 3);
  if (m.ndim == 1)
  {
    m.napices = (int)r.range(2, 12);
    double x = r.uniform(-5, 5);
    for (int i = 0; i < m.napices; i++) { m.pts.push_back({x}); x += r.uniform(0.1, 2.); }
    for (int i = 0; i + 1 < m.napices; i++) if (i == 0 || r.chance(0.8)) m.cells.push_back({i, i + 1});
  }
  else if (m.ndim == 2)
  {
    int px = (int)r.range(2, 5), py = (int)r.range(2, 4);
    m.napices = px * py;
    for (int j = 0; j < py; j++)
      for (int i = 0; i < px; i++) m.pts.push_back({i + r.uniform(-0.3, 0.3), j + r.uniform(-0.3, 0.3)});
    for (int j = 0; j + 1 < py; j++)
      for (int i = 0; i + 1 < px; i++)
      {
        int a = j * px + i, b = a + 1, c = a + px, e = c + 1;
        if (r.chance(0.5)) { m.cells.push_back({a, b, c}); if (r.chance(0.85)) m.cells.push_back({b, e, c}); }
        else { m.cells.push_back({a, b, e}); if (r.chance(0.85)) m.cells.push_back({a, e, c}); }
      }
  }
  else
  {
    m.napices = (int)r.range(4, 10);
    for (int i = 0; i < m.napices; i++) m.pts.push_back({r.uniform(0, 5) + 1e-3 * i, r.uniform(0, 5), r.uniform(0, 5)});
    int nt = (int)r.range(1, 6);
    for (int t = 0; t < nt; t++)
    {
      std::vector<int> idx;
      while ((int)idx.size() < 4)
      {
        int c = (int)r.below(m.napices);
        if (std::find(idx.begin(), idx.end(), c) == idx.end()) idx.push_back(c);
      }
      m.cells.push_back(idx);
    }
  }
  m.nmesh = (int)m.cells.size();
  return m;
}

ASerializable* makeDbMeshStandard(Rng& r)
{
  NamePool np;
  MeshSpec m = makeMeshSpec(r);
  int nc = m.ndim + 1;
  VectorDouble apices;
  for (int d = 0; d < m.ndim; d++) for (int i = 0; i < m.napices; i++) apices.push_back(m.pts[i][d]);
  VectorInt meshes;
  for (int c = 0; c < nc; c++) for (int k = 0; k < m.nmesh; k++) meshes.push_back(m.cells[k][c]);
  VectorDouble tab;
  VectorString names, locs;
  ELoadBy order = ELoadBy::COLUMN;
  if (r.chance(0.75))
  {
    // the data table replaces the coordinate columns: it must carry them
    int nvar = (int)r.below(4);
    names = coordNames(m.ndim);
    locs = coordLocs(m.ndim);
    int nz = 0;
    for (int v = 0; v < nvar; v++)
    {
      names.push_back(np.take(r));
      locs.push_back(r.chance(0.5) ? "z" + std::to_string(++nz) : std::string("NA"));
    }
    int ncol = m.ndim + nvar;
    VectorVectorDouble cols(ncol, VectorDouble(m.napices));
    for (int i = 0; i < m.napices; i++)
    {
      for (int d = 0; d < m.ndim; d++) cols[d][i] = m.pts[i][d];
      for (int v = 0; v < nvar; v++) cols[m.ndim + v][i] = cellValue(r);
    }
    if (r.chance(0.5))
    {
      order = ELoadBy::SAMPLE;
      for (int i = 0; i < m.napices; i++) for (int c = 0; c < ncol; c++) tab.push_back(cols[c][i]);
    }
    else
      for (int c = 0; c < ncol; c++) for (int i = 0; i < m.napices; i++) tab.push_back(cols[c][i]);
  }
  DbMeshStandard* db = DbMeshStandard::create(m.ndim, nc, apices, meshes, order, tab, names, locs, false);
  decorateDb(r, np, db);
  return db;
}

// ---- describe for the derived Db classes
void describeDbLinePart(const DbLine* l, Desc& d)
{
  int nl = l->getLineNumber();
  d.I("line.count", nl);
  for (int il = 0; il < nl; il++) d.I("line" + std::to_string(il) + ".n", l->getLineSampleCount(il));
  int nech = l->getSampleNumber();
  VectorInt owner(nech);
  for (int i = 0; i < nech; i++) owner[i] = l->getLineBySample(i);
  d.VI("line.ofSample", owner);
  bool ok = (l->getNTotal() == nech);
  for (int i = 0; ok && i < nech; i++) ok = owner[i] >= 0;
  // order of the samples along each line, through their (distinct) coordinates
  if (ok)
    for (int il = 0; il < nl; il++)
      for (int k = 0; k < l->getNDim(); k++)
        d.VD("line" + std::to_string(il) + ".x" + std::to_string(k), l->getCoordinates(il, k));
}
void describeDbGraphPart(const DbGraphO* g, Desc& d)
{
  const MatrixSparse& m = g->getMatArcs();
  d.I("arcs.count", g->getArcNumber());
  d.I("arcs.nrows", m.getNRows());
  d.I("arcs.ncols", m.getNCols());
  NF_Triplet t = m.getMatrixToTriplet();
  // arcs with a zero weight are padding of the sparse storage: only list real arcs, sorted
  std::vector<std::array<double, 3>> v;
  for (int i = 0; i < t.getNumber(); i++)
    if (t.getValue(i) != 0.) v.push_back({(double)t.getRow(i), (double)t.getCol(i), t.getValue(i)});
  std::sort(v.begin(), v.end());
  d.I("arcs.real", (long)v.size());
  for (size_t i = 0; i < v.size(); i++)
  {
    std::string k = "arc" + std::to_string(i);
    d.I(k + ".from", (long)v[i][0]);
    d.I(k + ".to", (long)v[i][1]);
    d.D(k + ".w", v[i][2]);
  }
}
template<class M> void describeDbMeshPart(const M* m, int ncorner, Desc& d)
{
  int na = m->getNApices(), nm = m->getNMeshes();
  d.I("mesh.napices", na);
  d.I("mesh.nmeshes", nm);
  d.I("mesh.ncorner", ncorner);
  VectorInt idx;
  for (int im = 0; im < nm && im < 1000; im++)
    for (int c = 0; c < ncorner; c++) idx.push_back(m->getApex(im, c));
  d.VI("mesh.apex", idx);
}

std::string consistentDbLine(const DbLine* l)
{
  int nech = l->getSampleNumber();
  if (l->getNTotal() != nech) return "line addresses count " + std::to_string(l->getNTotal()) + " != samples " + std::to_string(nech);
  for (int i = 0; i < nech; i++)
    if (l->getLineBySample(i) < 0) return "sample " + std::to_string(i) + " belongs to no line";
  return "";
}
std::string consistentDbGraph(const DbGraphO* g)
{
  int nech = g->getSampleNumber();
  NF_Triplet t = g->getMatArcs().getMatrixToTriplet();
  for (int i = 0; i < t.getNumber(); i++)
  {
    if (t.getRow(i) < 0 || t.getRow(i) >= nech || t.getCol(i) < 0 || t.getCol(i) >= nech) return "arc end outside the samples";
    if (t.getValue(i) < 0) return "negative arc weight";
  }
  if (g->getMatArcs().getNRows() > nech || g->getMatArcs().getNCols() > nech) return "arc matrix larger than sample count";
  return "";
}
template<class M> std::string consistentDbMesh(const M* m, int ncorner)
{
  int na = m->getNApices(), nm = m->getNMeshes();
  if (na < 0 || nm < 0) return "negative mesh dimensions";
  if (na > m->getSampleNumber()) return "param: more apices than samples";
  for (int im = 0; im < nm && im < 1000; im++)
    for (int c = 0; c < ncorner; c++)
    {
      int a = m->getApex(im, c);
      // no such corner: meshes with another number of corners than ndim+1 are accepted by createFromExternal too
      if (IFFFF(a)) return "param: meshes not sized by ndim+1";
      if (a < 0 || a >= na) return "mesh " + std::to_string(im) + " refers to apex " + std::to_string(a) + " of " + std::to_string(na);
    }
  return "";
}

// =========================================================================== Model
std::vector<ECov> covTypesFor(int ndim)
{
  std::vector<ECov> v = {ECov::NUGGET, ECov::EXPONENTIAL, ECov::SPHERICAL, ECov::GAUSSIAN, ECov::CUBIC, ECov::MATERN,
                         ECov::STABLE, ECov::CAUCHY, ECov::GAMMA, ECov::SINCARD, ECov::PENTA, ECov::WENDLAND1,
                         ECov::COSEXP, ECov::LINEAR, ECov::POWER, ECov::BESSELJ};
  if (ndim == 1) { v.push_back(ECov::TRIANGLE); v.push_back(ECov::COSINUS); v.push_back(ECov::STORKEY); }
  return v;
}
// random symmetric positive semi-definite matrix (row major = column major)
VectorDouble psdMatrix(Rng& r, int n)
{
  VectorVectorDouble L(n, VectorDouble(n, 0.));
  int rank = r.chance(0.2) ? (int)r.range(1, n) : n;
  for (int i = 0; i < n; i++)
    for (int j = 0; j <= i && j < rank; j++) L[i][j] = (i == j) ? r.uniform(0.3, 2.) : r.uniform(-1., 1.);
  VectorDouble s(n * n);
  for (int i = 0; i < n; i++)
    for (int j = 0; j < n; j++)
    {
      double a = 0.;
      for (int k = 0; k < n; k++) a += L[i][k] * L[j][k];
      s[i * n + j] = a;
    }
  for (int i = 0; i < n; i++) for (int j = 0; j < i; j++) s[i * n + j] = s[j * n + i];
  return s;
}
VectorDouble anglesFor(Rng& r, int ndim)
{
  VectorDouble a(ndim, 0.);
  a[0] = r.chance(0.3) ? (double)r.range(-90, 90) : r.uniform(-180., 180.);
  if (ndim == 3 && r.chance(0.6)) { a[1] = r.uniform(-80., 80.); a[2] = r.uniform(-80., 80.); }
  return a;
}

ASerializable* makeModel(Rng& r)
{
  int ndim = (int)r.range(1, 3);
  int nvar = (int)r.range(1, 3);
  int ncov = (int)r.below(5);
  Model* m = new Model(nvar, ndim);
  std::vector<ECov> types = covTypesFor(ndim);
  for (int ic = 0; ic < ncov; ic++)
  {
    ECov t = r.pick(types);
    double range = r.chance(0.2) ? (double)r.range(1, 20) : r.uniform(0.5, 30.);
    double param = 1.;
    if (t == ECov::MATERN) param = r.pick(std::vector<double>{0.5, 1., 1.5, 2.5, 0.73});
    if (t == ECov::STABLE || t == ECov::POWER) param = r.uniform(0.3, 1.9);
    if (t == ECov::CAUCHY || t == ECov::GAMMA) param = r.uniform(0.5, 3.);
    if (t == ECov::BESSELJ) param = r.uniform(0.6, 2.);
    if (t == ECov::COSEXP) param = r.uniform(0.5, 5.);
    VectorDouble ranges, angles, sills;
    if (t != ECov::NUGGET && r.chance(0.5))
    {
      for (int d = 0; d < ndim; d++) ranges.push_back(r.uniform(0.5, 30.));
      if (ndim >= 2 && r.chance(0.6)) angles = anglesFor(r, ndim);
    }
    double sill = r.uniform(0.1, 5.);
    if (nvar > 1 || r.chance(0.3)) sills = psdMatrix(r, nvar);
    if (nvar == 1 && !sills.empty()) sills[0] = sill;
    m->addCovFromParam(t, range, sill, param, ranges, sills, angles, r.chance(0.85));
  }
  if (r.chance(0.4)) m->setDriftIRF((int)r.range(0, 2), ndim >= 1 ? (int)r.below(3) : 0);
  if (r.chance(0.6))
  {
    VectorDouble means(nvar);
    for (auto& x : means) x = r.chance(0.2) ? 0. : 10. * r.gauss();
    m->setMeans(means);
  }
  bool needField = false; // generalised covariances are scaled by the field extension
  for (int ic = 0; ic < m->getCovaNumber(); ic++)
    if (m->getCovaType(ic) == ECov::LINEAR || m->getCovaType(ic) == ECov::POWER) needField = true;
  if (needField || r.chance(0.5)) m->setField(r.uniform(1., 500.));
  if (r.chance(0.3)) m->setCovar0s(psdMatrix(r, nvar));
  return m;
}

void describeModel(const ASerializable* o, Desc& d)
{
  const Model* m = dynamic_cast<const Model*>(o);
  if (!m) { d.S("class", "not a Model"); return; }
  int ndim = m->getDimensionNumber(), nvar = m->getVariableNumber(), ncov = m->getCovaNumber();
  d.I("ndim", ndim);
  d.I("nvar", nvar);
  d.D("field", m->getField());
  d.I("ncov", ncov);
  for (int ic = 0; ic < ncov; ic++)
  {
    const CovAniso* c = m->getCova(ic);
    std::string k = "cov" + std::to_string(ic);
    if (c == nullptr) { d.S(k, "null"); continue; }
    d.I(k + ".type", c->getType().getValue());
    d.D(k + ".range", c->getRange());
    d.D(k + ".param", c->getParam());
    d.I(k + ".aniso", c->getFlagAniso());
    d.I(k + ".rotated", c->getFlagRotation());
    d.VD(k + ".coeffs", c->getAnisoCoeffs());
    d.VD(k + ".rotmat", c->getAnisoRotMat().getValues());
    const MatrixSquareSymmetric& s = c->getSill();
    d.I(k + ".sill.n", s.getNRows());
    for (int i = 0; i < s.getNRows(); i++)
      for (int j = 0; j < s.getNCols(); j++) d.D(k + ".sill" + std::to_string(i) + std::to_string(j), s.getValue(i, j));
  }
  int nd = m->getDriftNumber();
  d.I("ndrift", nd);
  for (int il = 0; il < nd; il++)
  {
    const ADrift* a = m->getDrift(il);
    d.S("drift" + std::to_string(il), a ? a->getDriftName() : std::string("null"));
  }
  d.I("nfex", m->getExternalDriftNumber());
  d.VD("means", m->getMeans());
  d.VD("covar0", m->getCovar0s());
}

std::string consistentModel(const ASerializable* o)
{
  const Model* m = dynamic_cast<const Model*>(o);
  if (!m) return "not a Model";
  int ndim = m->getDimensionNumber(), nvar = m->getVariableNumber(), ncov = m->getCovaNumber();
  if (ndim < 1) return "param: space dimension " + std::to_string(ndim);
  if (nvar < 1) return "param: variable count " + std::to_string(nvar);
  if (ncov < 0) return "negative structure count";
  for (int ic = 0; ic < ncov; ic++)
  {
    const CovAniso* c = m->getCova(ic);
    if (c == nullptr) return "null covariance";
    std::string k = "cov" + std::to_string(ic);
    if (c->getSill().getNRows() != nvar || c->getSill().getNCols() != nvar) return k + ": sill matrix is not nvar x nvar";
    if ((int)c->getScales().size() != ndim) return k + ": scales not sized by ndim";
    if ((int)c->getAnisoAngles().size() != ndim) return k + ": angles not sized by ndim";
    if (c->getAnisoRotMat().getNRows() != ndim) return k + ": rotation matrix not ndim x ndim";
    if (c->getType() == ECov::UNKNOWN) return k + ": unknown type";
  }
  if ((int)m->getMeans().size() != nvar) return "means not sized by nvar";
  if ((int)m->getCovar0s().size() != nvar * nvar) return "covar0 not sized by nvar*nvar";
  for (int il = 0; il < m->getDriftNumber(); il++)
    if (m->getDrift(il) == nullptr) return "null drift";
  return "";
}

// fixed probe data set: n points in ndim, nz variables, nf external drifts
Db* probeDb(int ndim, int n, int nz, int nf, bool rank = true)
{
  static const double P[8][3] = {{0., 0., 0.},    {1., 0.5, 0.25}, {2.5, 3., 1.},   {-1., 4., 2.5},
                                 {6., 1.5, -2.},  {3.3, 7.1, 4.2}, {9., 9., 0.5},   {4.4, 2.2, 8.8}};
  VectorDouble tab;
  VectorString names, locs;
  for (int d = 0; d < ndim; d++) { names.push_back(std::string("px") + char('a' + d)); locs.push_back("x" + std::to_string(d + 1)); }
  for (int v = 0; v < nz; v++) { names.push_back(std::string("pz") + char('a' + v)); locs.push_back("z" + std::to_string(v + 1)); }
  for (int v = 0; v < nf; v++) { names.push_back(std::string("pf") + char('a' + v)); locs.push_back("f" + std::to_string(v + 1)); }
  for (int i = 0; i < n; i++)
  {
    for (int d = 0; d < ndim; d++) tab.push_back(P[i % 8][d % 3] + 10. * (i / 8));
    for (int v = 0; v < nz; v++) tab.push_back(1. + 0.5 * i + v);
    for (int v = 0; v < nf; v++) tab.push_back(2. + 0.25 * i * (v + 1));
  }
  return Db::createFromSamples(n, ELoadBy::SAMPLE, tab, names, locs, rank);
}

void probeModel(ASerializable* o, Desc& d)
{
  Model* m = dynamic_cast<Model*>(o);
  if (!m) return;
  std::string why = consistentModel(o);
  d.S("consistent", why);
  if (!why.empty()) return;
  int ndim = m->getDimensionNumber(), nvar = m->getVariableNumber();
  if (ndim > 3 || nvar > 6) { d.S("probe", "skipped (too large)"); return; }
  int nfex = std::min(m->getExternalDriftNumber(), 4);
  Db* db = probeDb(ndim, 5, nvar, nfex);
  for (int ic = 0; ic < m->getCovaNumber(); ic++)
  {
    // derived from the stored range, coefficients and rotation matrix
    const CovAniso* c = m->getCova(ic);
    std::string k = "cov" + std::to_string(ic);
    d.VD(k + ".ranges", c->getRanges());
    d.VD(k + ".scales", c->getScales());
    d.VD(k + ".angles", c->getAnisoAngles());
  }
  if (m->getCovaNumber() > 0)
  {
    MatrixRectangular c = m->evalCovMatrix(db);
    d.I("cov.nrows", c.getNRows());
    d.I("cov.ncols", c.getNCols());
    d.VD("cov", c.getValues());
    d.D("c00", m->eval0(0, 0));
  }
  if (m->getDriftNumber() > 0)
  {
    MatrixRectangular f = m->evalDriftMatrix(db);
    d.I("drift.nrows", f.getNRows());
    d.I("drift.ncols", f.getNCols());
    d.VD("drift", f.getValues());
  }
  delete db;
}

// =========================================================================== Neighbourhoods
ASerializable* makeNeighUnique(Rng& r)
{
  SpaceRN sp((unsigned)r.range(1, 3));
  return NeighUnique::create(r.chance(0.3), &sp);
}
ASerializable* makeNeighMoving(Rng& r)
{
  int ndim = (int)r.range(1, 3);
  SpaceRN sp((unsigned)ndim);
  int nmaxi = r.chance(0.2) ? 1000 : (int)r.range(1, 30);
  int nmini = (int)r.range(1, std::min(nmaxi, 5));
  double radius = r.chance(0.15) ? TEST : (r.chance(0.3) ? (double)r.range(1, 50) : r.uniform(0.5, 50.));
  int nsect = (ndim == 1 || r.chance(0.5)) ? 1 : (int)r.range(2, 8);
  int nsmax = r.chance(0.5) ? ITEST : (int)r.range(1, 5);
  VectorDouble coeffs, angles;
  // the distance checker assumes 2-D when no coefficient is given: give them whenever ndim != 2
  if (ndim != 2 || r.chance(0.6))
  {
    for (int k = 0; k < ndim; k++) coeffs.push_back(r.chance(0.3) ? 1. : r.uniform(0.2, 3.));
    if (ndim >= 2 && r.chance(0.6)) angles = anglesFor(r, ndim);
  }
  NeighMoving* n = NeighMoving::create(r.chance(0.3), nmaxi, radius, nmini, nsect, nsmax, coeffs, angles, &sp);
  if (r.chance(0.2)) n->setDistCont(r.uniform(0.3, 0.95));
  return n;
}
ASerializable* makeNeighBench(Rng& r)
{
  SpaceRN sp((unsigned)r.range(1, 3));
  return NeighBench::create(r.chance(0.3), r.chance(0.2) ? (double)r.range(0, 5) : r.uniform(0.1, 8.), &sp);
}
ASerializable* makeNeighCell(Rng& r)
{
  SpaceRN sp((unsigned)r.range(1, 3));
  return NeighCell::create(r.chance(0.3), (int)r.range(0, 6), &sp);
}
ASerializable* makeNeighImage(Rng& r)
{
  int ndim = (int)r.range(1, 3);
  SpaceRN sp((unsigned)ndim);
  VectorInt radius;
  for (int k = 0; k < ndim; k++) radius.push_back((int)r.range(0, 4));
  return NeighImage::create(radius, (int)r.below(4), &sp);
}

void describeNeigh(const ASerializable* o, Desc& d)
{
  const ANeigh* n = dynamic_cast<const ANeigh*>(o);
  if (!n) { d.S("class", "not a neighbourhood"); return; }
  d.I("type", n->getType().getValue());
  d.I("ndim", (long)n->getNDim());
  d.I("xvalid", n->getFlagXvalid());
  d.I("kfold", n->getFlagKFold());
  d.I("continuous", n->getFlagContinuous());
  if (const NeighMoving* m = dynamic_cast<const NeighMoving*>(o))
  {
    d.I("nmini", m->getNMini());
    d.I("nmaxi", m->getNMaxi());
    d.I("nsect", m->getNSect());
    d.I("nsmax", m->getNSMax());
    d.I("sector", m->getFlagSector());
    d.D("distcont", m->getDistCont());
    if (m->getBiPtDist() != nullptr)
    {
      d.D("radius", m->getRadius());
      d.I("aniso", m->getFlagAniso());
      d.I("rotation", m->getFlagRotation());
      d.I("dist.ndim", m->getBiPtDist()->getNDim());
      d.VD("coeffs", m->getAnisoCoeffs());
      d.VD("rotmat", m->getAnisoRotMats());
    }
    else
      d.S("dist", "null");
  }
  if (const NeighBench* b = dynamic_cast<const NeighBench*>(o)) d.D("width", b->getWidth());
  if (const NeighCell* c = dynamic_cast<const NeighCell*>(o)) d.I("nmini", c->getNMini());
  if (const NeighImage* i = dynamic_cast<const NeighImage*>(o))
  {
    d.I("skip", i->getSkip());
    d.VI("radius", i->getImageRadius());
  }
}

std::string consistentNeigh(const ASerializable* o)
{
  const ANeigh* n = dynamic_cast<const ANeigh*>(o);
  if (!n) return "not a neighbourhood";
  int ndim = (int)n->getNDim();
  if (ndim < 1) return "param: space dimension " + std::to_string(ndim);
  if (const NeighMoving* m = dynamic_cast<const NeighMoving*>(o))
  {
    if (m->getBiPtDist() == nullptr) return "no distance checker";
    int nd = m->getBiPtDist()->getNDim();
    if ((int)m->getAnisoCoeffs().size() != nd) return "anisotropy coefficients not sized by the checker dimension";
    if ((int)m->getAnisoRotMats().size() != nd * nd) return "rotation matrix not sized by the checker dimension";
    if (m->getFlagAniso() && nd != ndim) return "anisotropy dimension " + std::to_string(nd) + " != space dimension " + std::to_string(ndim);
    if (m->getNSect() < 1) return "param: sector count " + std::to_string(m->getNSect());
    if (m->getNMini() > m->getNMaxi() && m->getNMaxi() > 0) return "param: nmini > nmaxi";
  }
  if (const NeighImage* i = dynamic_cast<const NeighImage*>(o))
  {
    if ((int)i->getImageRadius().size() != ndim) return "param: image radius not sized by ndim";
    for (int v : i->getImageRadius()) if (v < 0) return "param: negative image radius";
    if (i->getSkip() < 0) return "param: negative skip";
  }
  if (const NeighBench* b = dynamic_cast<const NeighBench*>(o))
    if (!(b->getWidth() >= 0.)) return "param: negative bench width";
  return "";
}

void probeNeigh(ASerializable* o, Desc& d)
{
  ANeigh* n = dynamic_cast<ANeigh*>(o);
  if (!n) return;
  std::string why = consistentNeigh(o);
  d.S("consistent", why);
  if (!why.empty()) return;
  int ndim = (int)n->getNDim();
  if (ndim > 3) { d.S("probe", "skipped"); return; }
  bool needGrid = dynamic_cast<NeighCell*>(o) != nullptr || dynamic_cast<NeighImage*>(o) != nullptr;
  Db* dbin = nullptr;
  Db* dbout = nullptr;
  if (dynamic_cast<NeighImage*>(o) != nullptr)
  {
    VectorInt nx(ndim, ndim == 1 ? 12 : (ndim == 2 ? 5 : 3));
    DbGrid* g = DbGrid::create(nx);
    VectorDouble z(g->getSampleNumber());
    for (size_t i = 0; i < z.size(); i++) z[i] = (i % 7 == 3) ? TEST : 1. + 0.1 * i;
    g->addColumns(z, "pz", ELoc::Z, 0);
    dbin = g;
    dbout = g;
  }
  else
  {
    dbin = probeDb(ndim, 16, 1, 0);
    if (needGrid)
    {
      VectorInt nx(ndim, 3);
      VectorDouble dx(ndim, 4.), x0(ndim, 0.);
      dbout = DbGrid::create(nx, dx, x0);
    }
    else
      dbout = probeDb(ndim, 4, 0, 0);
  }
  if (n->attach(dbin, dbout) != 0)
    d.S("attach", "refused");
  else
  {
    int nout = dbout->getSampleNumber();
    int targets[3] = {0, nout / 2, nout - 1};
    for (int t = 0; t < 3; t++)
    {
      VectorInt ranks;
      n->select(targets[t], ranks);
      d.VI("sel" + std::to_string(t), ranks);
    }
    d.I("maxsample", n->getMaxSampleNumber(dbin));
  }
  if (dbout != dbin) delete dbout;
  delete dbin;
}

// =========================================================================== Vario
Db* varioData(Rng& r, int ndim, int nech, int nz)
{
  VectorVectorDouble p = distinctPoints(r, nech, ndim);
  VectorDouble tab;
  VectorString names = coordNames(ndim), locs = coordLocs(ndim);
  static const char* Z[] = {"grade", "thick"};
  for (int v = 0; v < nz; v++) { names.push_back(Z[v]); locs.push_back("z" + std::to_string(v + 1)); }
  for (int i = 0; i < nech; i++)
  {
    for (int d = 0; d < ndim; d++) tab.push_back(p[i][d]);
    double base = r.gauss();
    for (int v = 0; v < nz; v++)
      tab.push_back((i > 3 && r.chance(0.08)) ? TEST : 5. + 2. * base + r.gauss() + 0.3 * p[i][0] * v);
  }
  return Db::createFromSamples(nech, ELoadBy::SAMPLE, tab, names, locs, true);
}

// directions given as grid increments (oblique and multi-cell ones included), computed on a small grid
ASerializable* makeVarioOnGrid(Rng& r)
{
  int ndim = (int)r.range(1, 3);
  VectorInt nx;
  VectorDouble dx, x0;
  for (int d = 0; d < ndim; d++) { nx.push_back((int)r.range(4, ndim == 3 ? 6 : 9)); dx.push_back(r.chance(0.4) ? 1. : r.uniform(0.5, 3.)); x0.push_back(r.chance(0.5) ? 0. : r.uniform(-50., 50.)); }
  int nd0 = getDefaultSpaceDimension();
  defineDefaultSpace(ESpaceType::RN, ndim);
  DbGrid* g = DbGrid::create(nx, dx, x0);
  VectorDouble z(g->getSampleNumber());
  for (auto& v : z) v = r.chance(0.05) ? TEST : 5. + 2. * r.gauss();
  g->addColumns(z, "grade", ELoc::Z);
  VarioParam vp;
  int ndir = (int)r.range(1, 3);
  for (int id = 0; id < ndir; id++)
  {
    VectorInt inc(ndim, 0);
    bool any = false;
    for (auto& q : inc) { q = (int)r.range(-1, 2); if (q != 0) any = true; }
    if (!any) inc[(size_t)r.below(ndim)] = 1;
    DirParam* dp = DirParam::createFromGrid(g, (int)r.range(2, 6), inc);
    vp.addDir(*dp);
    delete dp;
  }
  Vario* v = Vario::computeFromDb(vp, g, ECalcVario::VARIOGRAM);
  if (v == nullptr) v = Vario::create(vp);
  delete g;
  defineDefaultSpace(ESpaceType::RN, nd0);
  return v;
}

ASerializable* makeVario(Rng& r)
{
  // one object in seven has its directions given as grid increments; decided on a copy of the generator so that the
  // other six keep the stream (and the replay files recorded for them) unchanged
  {
    Rng peek = r;
    if (peek.below(7) == 3) return makeVarioOnGrid(r);
  }
  int ndim = (int)r.range(1, 3);
  int nech = (int)r.range(8, 40);
  int nz = (int)r.range(1, 2);
  Db* db = varioData(r, ndim, nech, nz);
  SpaceRN sp((unsigned)ndim);
  Vario* v = nullptr;
  for (int attempt = 0; attempt < 3 && v == nullptr; attempt++)
  {
    VarioParam vp(attempt == 0 && r.chance(0.3) ? r.uniform(0.1, 2.) : 0.);
    int ndir = attempt == 2 ? 1 : (int)r.range(1, 3);
    static const std::vector<ECalcVario> CALC = {ECalcVario::VARIOGRAM, ECalcVario::VARIOGRAM, ECalcVario::VARIOGRAM,
                                                 ECalcVario::COVARIANCE, ECalcVario::COVARIOGRAM, ECalcVario::MADOGRAM,
                                                 ECalcVario::RODOGRAM, ECalcVario::COVARIANCE_NC};
    ECalcVario calc = attempt == 0 ? r.pick(CALC) : ECalcVario::VARIOGRAM;
    int npasAll = -1;
    for (int id = 0; id < ndir; id++)
    {
      VectorDouble codir(ndim);
      double nn = 0.;
      for (auto& c : codir) { c = r.gauss(); nn += c * c; }
      if (nn < 1e-6) { codir[0] = 1.; nn = 1.; }
      for (auto& c : codir) c /= std::sqrt(nn);
      if (r.chance(0.3)) { for (auto& c : codir) c = 0.; codir[r.below(ndim)] = 1.; }
      int npas = (int)r.range(1, 12);
      // the transitive covariogram overruns its result arrays when directions differ in lag count
      // (Vario::updateGgByIndex): such a Vario cannot be built, keep one lag count for that calculation
      if (calc == ECalcVario::COVARIOGRAM) { if (npasAll < 0) npasAll = npas; npas = npasAll; }
      double dpas = r.chance(0.3) ? 1. : r.uniform(0.3, 3.);
      double toldis = r.chance(0.5) ? 0.5 : r.uniform(0.1, 0.5);
      double tolang = (ndim > 1 && attempt == 0) ? r.uniform(10., 90.) : 90.;
      double bench = (ndim == 3 && attempt == 0 && r.chance(0.2)) ? r.uniform(2., 6.) : TEST;
      double cylrad = (ndim >= 2 && attempt == 0 && r.chance(0.2)) ? r.uniform(2., 6.) : TEST;
      DirParam dp(npas, dpas, toldis, tolang, 0, 0, bench, cylrad, 0., VectorDouble(), codir, TEST, &sp);
      vp.addDir(dp);
    }
    v = Vario::computeFromDb(vp, db, calc);
    if (v == nullptr && attempt == 2) v = Vario::create(vp);
  }
  delete db;
  return v;
}

void describeVario(const ASerializable* o, Desc& d)
{
  const Vario* v = dynamic_cast<const Vario*>(o);
  if (!v) { d.S("class", "not a Vario"); return; }
  int nvar = v->getVariableNumber(), ndir = v->getDirectionNumber();
  d.I("nvar", nvar);
  d.I("ndir", ndir);
  d.I("ndim", ndir > 0 ? v->getDimensionNumber() : 0);
  d.D("scale", v->getScale());
  d.I("calcul", v->getCalcul().getValue());
  d.I("asym", v->getFlagAsym());
  d.VS("varnames", v->getVariableNames());
  d.VD("vars", v->getVars());
  d.VD("means", v->getMeans());
  d.VD("dates", v->getDates());
  for (int id = 0; id < ndir; id++)
  {
    const DirParam& p = v->getDirParam(id);
    std::string k = "dir" + std::to_string(id);
    d.I(k + ".ndim", (long)p.getNDim());
    d.I(k + ".npas", p.getLagNumber());
    d.D(k + ".dpas", p.getDPas());
    d.D(k + ".toldis", p.getTolDist());
    d.D(k + ".tolang", p.getTolAngle());
    d.I(k + ".optcode", p.getOptionCode());
    d.D(k + ".tolcode", p.getTolCode());
    d.I(k + ".idate", p.getIdate());
    d.D(k + ".bench", p.getBench());
    d.D(k + ".cylrad", p.getCylRad());
    d.VD(k + ".breaks", p.getBreaks());
    d.VD(k + ".codir", p.getCodirs());
    d.VI(k + ".grincr", p.getGrincrs());
    d.I(k + ".size", v->getDirSize(id));
    d.VD(k + ".sw", v->getAllSw(id));
    d.VD(k + ".hh", v->getAllHh(id));
    d.VD(k + ".gg", v->getAllGg(id));
  }
}

std::string consistentVario(const ASerializable* o)
{
  const Vario* v = dynamic_cast<const Vario*>(o);
  if (!v) return "not a Vario";
  int nvar = v->getVariableNumber(), ndir = v->getDirectionNumber();
  if (nvar < 0 || ndir < 0) return "negative dimensions";
  if (ndir > 0 && nvar < 1) return "param: directions without variables";
  if (!v->getVars().empty() && (int)v->getVars().size() != nvar * nvar) return "variances not sized nvar*nvar";
  if (!v->getVariableNames().empty() && (int)v->getVariableNames().size() != nvar) return "variable names not sized nvar";
  int ndim = ndir > 0 ? (int)v->getDirParam(0).getNDim() : 0;
  for (int id = 0; id < ndir; id++)
  {
    const DirParam& p = v->getDirParam(id);
    std::string k = "dir" + std::to_string(id);
    if ((int)p.getNDim() != ndim) return k + ": space dimension differs from direction 0";
    if (p.getLagNumber() < 0) return "param: " + k + ": negative lag count";
    if ((int)p.getCodirs().size() != ndim) return k + ": direction vector not sized by ndim";
    if (!p.getGrincrs().empty() && (int)p.getGrincrs().size() != ndim) return k + ": grid increment not sized by ndim";
    int expect = v->getDirSize(id);
    int nsw = (int)v->getAllSw(id).size(), nhh = (int)v->getAllHh(id).size(), ngg = (int)v->getAllGg(id).size();
    if (nsw != expect || nhh != expect || ngg != expect)
      return k + ": sw/hh/gg sizes " + std::to_string(nsw) + "/" + std::to_string(nhh) + "/" + std::to_string(ngg) +
             " != nvs*lags " + std::to_string(expect);
  }
  return "";
}

void probeVario(ASerializable* o, Desc& d)
{
  Vario* v = dynamic_cast<Vario*>(o);
  if (!v) return;
  std::string why = consistentVario(o);
  d.S("consistent", why);
  if (!why.empty()) return;
  int nvar = v->getVariableNumber(), ndir = v->getDirectionNumber();
  for (int id = 0; id < ndir; id++)
    for (int iv = 0; iv < nvar; iv++)
      for (int jv = 0; jv <= iv; jv++)
      {
        std::string k = "d" + std::to_string(id) + "v" + std::to_string(iv) + std::to_string(jv);
        d.VD(k + ".gg", v->getGgVec(id, iv, jv));
        d.VD(k + ".hh", v->getHhVec(id, iv, jv));
        d.VD(k + ".sw", v->getSwVec(id, iv, jv));
        d.VD(k + ".ggfull", v->getGgVec(id, iv, jv, false, false, false));
      }
  if (ndir > 0 && nvar > 0)
  {
    d.D("hmax", v->getHmax());
    d.D("gmax", v->getGmax());
    d.D("var00", v->getVar(0, 0));
  }
}

// =========================================================================== Polygons, PolyLine2D, Faults
void ringPoints(Rng& r, double cx, double cy, double rad, int n, VectorDouble& x, VectorDouble& y, bool close)
{
  for (int i = 0; i < n; i++)
  {
    double a = 6.283185307179586 * (i + r.uniform(0.1, 0.9)) / n;
    double q = rad * r.uniform(0.4, 1.);
    x.push_back(cx + q * std::cos(a));
    y.push_back(cy + q * std::sin(a));
  }
  if (close) { x.push_back(x[0]); y.push_back(y[0]); }
}
ASerializable* makePolygons(Rng& r)
{
  Polygons* p = new Polygons();
  int np = r.chance(0.05) ? 0 : (int)r.range(1, 4);
  for (int k = 0; k < np; k++)
  {
    VectorDouble x, y;
    ringPoints(r, r.uniform(0., 10.), r.uniform(0., 10.), r.uniform(1., 6.), (int)r.range(3, 8), x, y, r.chance(0.5));
    if (r.chance(0.2)) for (auto& v : x) v = std::round(v);
    double zmin = TEST, zmax = TEST;
    if (r.chance(0.4)) { zmin = r.uniform(-5., 0.); zmax = r.chance(0.7) ? zmin + r.uniform(0.5, 10.) : TEST; }
    p->addPolyElem(PolyElem(x, y, zmin, zmax));
  }
  return p;
}
void describePolygons(const ASerializable* o, Desc& d)
{
  const Polygons* p = dynamic_cast<const Polygons*>(o);
  if (!p) { d.S("class", "not Polygons"); return; }
  int np = p->getPolyElemNumber();
  d.I("npoly", np);
  for (int k = 0; k < np; k++)
  {
    const PolyElem& e = p->getPolyElem(k);
    std::string s = "poly" + std::to_string(k);
    d.VD(s + ".x", e.getX());
    d.VD(s + ".y", e.getY());
    d.D(s + ".zmin", e.getZmin());
    d.D(s + ".zmax", e.getZmax());
  }
}
std::string consistentPolygons(const ASerializable* o)
{
  const Polygons* p = dynamic_cast<const Polygons*>(o);
  if (!p) return "not Polygons";
  for (int k = 0; k < p->getPolyElemNumber(); k++)
  {
    const PolyElem& e = p->getPolyElem(k);
    if (e.getX().size() != e.getY().size()) return "polygon " + std::to_string(k) + ": x and y differ in size";
    if (e.getX().size() < 3) return "polygon " + std::to_string(k) + ": fewer than 3 vertices";
  }
  return "";
}
void probePolygons(ASerializable* o, Desc& d)
{
  Polygons* p = dynamic_cast<Polygons*>(o);
  if (!p) return;
  std::string why = consistentPolygons(o);
  d.S("consistent", why);
  if (!why.empty()) return;
  // (no round coordinate: a target sitting exactly on an edge would flip with the 15-digit rounding of the file)
  static const double Q[10][3] = {{5.013, 5.027, 0.1},  {0.011, 0.017, 1.1}, {2.517, 7.033, -1.1}, {8.019, 3.023, 4.1},
                                  {9.871, 9.913, 0.2},  {4.037, 4.041, -3.},  {6.043, 1.047, 2.1},  {1.051, 8.957, 0.5},
                                  {7.517, 7.523, 8.1},  {3.061, 2.067, -0.5}};
  for (int i = 0; i < 10; i++)
  {
    VectorDouble c2 = {Q[i][0], Q[i][1]};
    VectorDouble c3 = {Q[i][0], Q[i][1], Q[i][2]};
    d.I("in2d" + std::to_string(i), p->inside(c2));
    d.I("in3d" + std::to_string(i), p->inside(c3));
    d.I("nested" + std::to_string(i), p->inside(c2, true));
  }
  if (p->getPolyElemNumber() > 0)
  {
    d.D("surface", p->getSurface());
    double a = 1e300, b = -1e300, c = 1e300, e = -1e300; // in/out arguments
    p->getExtension(&a, &b, &c, &e);
    d.D("xmin", a); d.D("xmax", b); d.D("ymin", c); d.D("ymax", e);
  }
}

PolyLine2D randomLine(Rng& r)
{
  int n = (int)r.range(2, 8);
  VectorDouble x, y;
  double cx = r.uniform(0., 10.), cy = r.uniform(0., 10.);
  for (int i = 0; i < n; i++)
  {
    cx += r.uniform(0.2, 3.);
    cy += r.uniform(-2., 2.);
    x.push_back(r.chance(0.1) ? std::round(cx) : cx);
    y.push_back(cy);
  }
  return PolyLine2D(x, y);
}
ASerializable* makePolyLine(Rng& r) { return new PolyLine2D(randomLine(r)); }
void describeLine(const PolyLine2D& l, const std::string& k, Desc& d)
{
  d.I(k + "npoints", l.getNPoints());
  d.VD(k + "x", l.getX());
  d.VD(k + "y", l.getY());
}
void describePolyLine(const ASerializable* o, Desc& d)
{
  const PolyLine2D* l = dynamic_cast<const PolyLine2D*>(o);
  if (!l) { d.S("class", "not a PolyLine2D"); return; }
  describeLine(*l, "", d);
}
std::string consistentPolyLine(const ASerializable* o)
{
  const PolyLine2D* l = dynamic_cast<const PolyLine2D*>(o);
  if (!l) return "not a PolyLine2D";
  if (l->getX().size() != l->getY().size()) return "x and y differ in size";
  return "";
}
void probePolyLine(ASerializable* o, Desc& d)
{
  PolyLine2D* l = dynamic_cast<PolyLine2D*>(o);
  if (!l) return;
  std::string why = consistentPolyLine(o);
  d.S("consistent", why);
  if (!why.empty() || l->getNPoints() < 2) return;
  d.D("xmin", l->getXmin()); d.D("xmax", l->getXmax());
  d.D("ymin", l->getYmin()); d.D("ymax", l->getYmax());
  d.VD("first", l->getPoint(0));
  d.VD("last", l->getPoint(l->getNPoints() - 1));
}

// a polygon element on its own (PolyElem has its own neutral-file tag): a closed line with optional vertical limits
ASerializable* makePolyElem(Rng& r)
{
  PolyLine2D l = randomLine(r);
  VectorDouble x = l.getX(), y = l.getY();
  while (x.size() < 3) { x.push_back(r.uniform(-10., 10.)); y.push_back(r.uniform(-10., 10.)); }
  double zmin = r.chance(0.5) ? TEST : r.uniform(-5., 0.), zmax = r.chance(0.5) ? TEST : r.uniform(1., 5.);
  return new PolyElem(x, y, zmin, zmax);
}
void describePolyElem(const ASerializable* o, Desc& d)
{
  const PolyElem* e = dynamic_cast<const PolyElem*>(o);
  if (!e) { d.S("class", "not a PolyElem"); return; }
  describeLine(*e, "", d);
  d.D("zmin", e->getZmin());
  d.D("zmax", e->getZmax());
}
ASerializable* makeFaults(Rng& r)
{
  Faults* f = new Faults();
  int n = r.chance(0.05) ? 0 : (int)r.range(1, 4);
  for (int i = 0; i < n; i++) f->addFault(randomLine(r));
  return f;
}
void describeFaults(const ASerializable* o, Desc& d)
{
  const Faults* f = dynamic_cast<const Faults*>(o);
  if (!f) { d.S("class", "not Faults"); return; }
  d.I("nfaults", f->getNFaults());
  for (int i = 0; i < f->getNFaults(); i++) describeLine(f->getFault(i), "fault" + std::to_string(i) + ".", d);
}
std::string consistentFaults(const ASerializable* o)
{
  const Faults* f = dynamic_cast<const Faults*>(o);
  if (!f) return "not Faults";
  for (int i = 0; i < f->getNFaults(); i++)
    if (f->getFault(i).getX().size() != f->getFault(i).getY().size()) return "fault " + std::to_string(i) + ": x and y differ in size";
  return "";
}
void probeFaults(ASerializable* o, Desc& d)
{
  Faults* f = dynamic_cast<Faults*>(o);
  if (!f) return;
  std::string why = consistentFaults(o);
  d.S("consistent", why);
  if (!why.empty()) return;
  static const double S[6][4] = {{0, 0, 20, 20}, {0, 10, 30, 10}, {5, 0, 5, 20}, {1, 1, 2, 2}, {0, 20, 25, 0}, {12, 3, 14, 15}};
  for (int i = 0; i < 6; i++) d.I("split" + std::to_string(i), f->isSplitByFault(S[i][0], S[i][1], S[i][2], S[i][3]));
}

// =========================================================================== Anamorphoses
// skewed positive data (lognormal like), all defined, in a Db with one column "grade"
Db* anamData(Rng& r, VectorDouble* values = nullptr)
{
  int n = (int)r.range(25, 40);
  VectorDouble z(n), x(n);
  double m = r.uniform(0.5, 3.), s = r.uniform(0.2, 0.9);
  for (int i = 0; i < n; i++) { z[i] = m * std::exp(s * r.gauss() - 0.5 * s * s) + 1e-6 * i; x[i] = i; }
  Db* db = Db::createFromSamples(n, ELoadBy::COLUMN, VectorDouble(), VectorString(), VectorString(), false);
  db->addColumns(x, "east", ELoc::X, 0);
  db->addColumns(z, "grade", ELoc::Z, 0);
  if (values) *values = z;
  return db;
}
VectorDouble cutoffsFor(Rng& r, VectorDouble z)
{
  std::sort(z.begin(), z.end());
  int ncut = (int)r.range(1, 4);
  VectorDouble c;
  for (int k = 1; k <= ncut; k++) c.push_back(z[(size_t)(k * (z.size() - 1)) / (ncut + 1)] + 1e-7);
  return c;
}
ASerializable* makeAnamHermite(Rng& r)
{
  Db* db = anamData(r);
  AnamHermite* a = AnamHermite::create((int)r.range(3, 20), r.chance(0.7), r.chance(0.7) ? 1. : r.uniform(0.4, 0.99));
  (void)a->fit(db, "grade");
  delete db;
  return a;
}
ASerializable* makeAnamEmpirical(Rng& r)
{
  Db* db = anamData(r);
  bool dilution = r.chance(0.5);
  AnamEmpirical* a = new AnamEmpirical((int)r.range(5, 40), (dilution && r.chance(0.5)) ? r.uniform(0.05, 0.3) : TEST, dilution,
                                       r.chance(0.6));
  (void)a->fit(db, "grade");
  delete db;
  return a;
}
// The fit of the diffusion model needs factors computed beforehand by a PCA/MAF workflow; the
// object is therefore filled through its public reset() from explicit (coherent) arrays.
ASerializable* makeAnamDD(Rng& r)
{
  VectorDouble z;
  Db* db = anamData(r, &z);
  delete db;
  VectorDouble zcut = cutoffsFor(r, z);
  int ncut = (int)zcut.size(), nclass = ncut + 1;
  AnamDiscreteDD* a = AnamDiscreteDD::create();
  int nelem = a->getNElem();
  // invertible ncut x ncut matrix and its inverse (Gauss-Jordan)
  std::vector<std::vector<double>> A(ncut, std::vector<double>(ncut)), B(ncut, std::vector<double>(ncut, 0.));
  for (int i = 0; i < ncut; i++)
    for (int j = 0; j < ncut; j++) A[i][j] = (i == j ? 1. + r.uniform(0., 1.) : r.uniform(-0.3, 0.3));
  std::vector<std::vector<double>> W = A;
  for (int i = 0; i < ncut; i++) B[i][i] = 1.;
  for (int c = 0; c < ncut; c++)
  {
    double pv = W[c][c];
    for (int j = 0; j < ncut; j++) { W[c][j] /= pv; B[c][j] /= pv; }
    for (int i = 0; i < ncut; i++)
      if (i != c)
      {
        double f = W[i][c];
        for (int j = 0; j < ncut; j++) { W[i][j] -= f * W[c][j]; B[i][j] -= f * B[c][j]; }
      }
  }
  MatrixSquareGeneral z2f(ncut), f2z(ncut);
  for (int i = 0; i < ncut; i++)
    for (int j = 0; j < ncut; j++) { z2f.setValue(i, j, A[i][j]); f2z.setValue(i, j, B[i][j]); }
  // statistics per class (column major): proportion, mean grade, c_s, lambda, U, mul
  VectorDouble props(nclass), stats((size_t)nclass * nelem, 0.);
  double tot = 0.;
  for (auto& p : props) { p = r.uniform(0.2, 1.); tot += p; }
  double zm = r.uniform(0.1, 0.5);
  for (int ic = 0; ic < nclass; ic++)
  {
    double col[6] = {props[ic] / tot, zm, r.gauss(), ic == 0 ? 0. : (ic == 1 ? 1. : 1. + r.uniform(0.1, 3.) * ic), r.uniform(0.1, 2.),
                     r.uniform(0.3, 1.)};
    zm += r.uniform(0.2, 1.5);
    for (int e = 0; e < nelem && e < 6; e++) stats[(size_t)e * nclass + ic] = col[e];
  }
  a->reset(ncut, r.chance(0.5) ? 0. : r.uniform(0.1, 0.9), r.chance(0.5) ? 1. : r.uniform(0.5, 3.), zcut, z2f, f2z, stats);
  if (r.chance(0.6))
  {
    MatrixSquareGeneral q(nclass);
    for (int i = 0; i < nclass; i++) for (int j = 0; j < nclass; j++) q.setValue(i, j, r.gauss());
    a->setI2Chi(q);
  }
  return a;
}
ASerializable* makeAnamIR(Rng& r)
{
  VectorDouble z;
  Db* db = anamData(r, &z);
  AnamDiscreteIR* a = AnamDiscreteIR::create(r.chance(0.6) ? 0. : r.uniform(0.1, 0.9));
  a->setZCut(cutoffsFor(r, z));
  (void)a->fit(db, "grade");
  delete db;
  return a;
}

void describeAnam(const ASerializable* o, Desc& d)
{
  const AAnam* a = dynamic_cast<const AAnam*>(o);
  if (!a) { d.S("class", "not an anamorphosis"); return; }
  d.I("type", a->getType().getValue());
  d.I("nfactor", a->getNFactor());
  d.I("nclass", a->getNClass());
  d.I("support", a->isChangeSupportDefined());
  d.D("variance", a->getVariance());
  if (const AnamContinuous* c = dynamic_cast<const AnamContinuous*>(o))
  {
    d.D("azmin", c->getAzmin()); d.D("azmax", c->getAzmax());
    d.D("aymin", c->getAymin()); d.D("aymax", c->getAymax());
    d.D("pzmin", c->getPzmin()); d.D("pzmax", c->getPzmax());
    d.D("pymin", c->getPymin()); d.D("pymax", c->getPymax());
    d.D("mean", c->getMean());
  }
  if (const AnamHermite* h = dynamic_cast<const AnamHermite*>(o))
  {
    d.I("nbpoly", h->getNbPoly());
    d.D("rcoef", h->getRCoef());
    d.I("flagbound", h->getFlagBound());
    {
      // the defining parameters are the point coefficients and r (getPsiHns() returns their product psi[n] * r^n, whose
      // 15th digit depends on both roundings): read on a copy brought back to r = 1
      AnamHermite raw(*h);
      raw.setRCoef(1.);
      d.VD("psi", raw.getPsiHns());
    }
  }
  if (const AnamEmpirical* e = dynamic_cast<const AnamEmpirical*>(o))
  {
    d.I("ndisc", e->getNDisc());
    d.D("sigma2e", e->getSigma2e());
    d.I("dilution", e->isFlagDilution());
    d.I("gaussian", e->isFlagGaussian());
    d.VD("zdisc", e->getZDisc());
    d.VD("ydisc", e->getYDisc());
  }
  if (const AnamDiscrete* k = dynamic_cast<const AnamDiscrete*>(o))
  {
    d.I("ncut", k->getNCut());
    d.I("nelem", k->getNElem());
    d.D("mean", k->getMean());
    d.VD("zcut", k->getZCut());
    d.I("stats.nrows", k->getStats().getNRows());
    d.I("stats.ncols", k->getStats().getNCols());
    d.VD("stats", k->getStats().getValues());
  }
  if (const AnamDiscreteDD* q = dynamic_cast<const AnamDiscreteDD*>(o))
  {
    d.D("mu", q->getMu());
    d.D("scoef", q->getSCoef());
    d.VD("z2f", q->getPcaZ2Fs().getValues());
    d.VD("f2z", q->getPcaF2Zs().getValues());
    d.I("i2chi.n", q->getI2Chi().getNRows());
    d.VD("i2chi", q->getI2Chi().getValues());
  }
  if (const AnamDiscreteIR* q = dynamic_cast<const AnamDiscreteIR*>(o)) d.D("rcoef", q->getRCoef());
}

std::string consistentAnam(const ASerializable* o)
{
  const AAnam* a = dynamic_cast<const AAnam*>(o);
  if (!a) return "not an anamorphosis";
  if (const AnamEmpirical* e = dynamic_cast<const AnamEmpirical*>(o))
  {
    if (e->getNDisc() < 0) return "negative discretisation count";
    if ((int)e->getZDisc().size() != e->getNDisc() || (int)e->getYDisc().size() != e->getNDisc())
      return "discretisation vectors not sized by ndisc";
  }
  if (const AnamDiscrete* k = dynamic_cast<const AnamDiscrete*>(o))
  {
    if (k->getNCut() < 0 || k->getNElem() < 0) return "negative dimensions";
    if ((int)k->getZCut().size() != k->getNCut()) return "cutoffs not sized by ncut";
    if (k->getStats().getNRows() != k->getNClass() || k->getStats().getNCols() != k->getNElem())
      return "statistics not sized nclass x nelem";
    if ((long)k->getStats().getValues().size() != (long)k->getNClass() * k->getNElem()) return "statistics storage not sized nclass x nelem";
    if (k->getNElem() < 6) return "param: fewer than 6 statistics per class"; // the per-class getters address columns 0..5
  }
  if (const AnamDiscreteDD* q = dynamic_cast<const AnamDiscreteDD*>(o))
  {
    int n = q->getPcaZ2Fs().getNRows();
    if (n != 0 && n != q->getNCut()) return "PCA matrix not sized by ncut";
  }
  return "";
}

void probeAnam(ASerializable* o, Desc& d)
{
  AAnam* a = dynamic_cast<AAnam*>(o);
  if (!a) return;
  std::string why = consistentAnam(o);
  d.S("consistent", why);
  if (!why.empty()) return;
  // probe points off the 0.1 lattice on which the fitted bounds of the Gaussian scale fall (a transform is not
  // continuous at its bounds: evaluated exactly there, a bound rounded at its 15th digit flips the answer)
  static const VectorDouble ZV = {0.0513, 0.417, 0.913, 1.317, 2.03, 3.517, 7.03};
  static const VectorDouble YV = {-2.537, -1.013, -0.217, 0.0131, 0.613, 1.417, 2.771};
  if (a->hasGaussian())
  {
    const AnamHermite* h = dynamic_cast<const AnamHermite*>(o);
    const AnamEmpirical* e = dynamic_cast<const AnamEmpirical*>(o);
    bool ok = (h && h->getNbPoly() > 0) || (e && e->getNDisc() > 1);
    if (ok)
    {
      d.VD("z2y", a->rawToTransformVec(ZV));
      d.VD("y2z", a->transformToRawVec(YV));
    }
  }
  if (a->hasFactor())
  {
    int nmax = a->getNClass() - 1;
    VectorInt ifacs;
    for (int k = 1; k <= nmax && k <= 3; k++) ifacs.push_back(k);
    const AnamDiscreteDD* q = dynamic_cast<const AnamDiscreteDD*>(o);
    bool ok = !ifacs.empty() && (q == nullptr || q->getI2Chi().getNRows() >= a->getNClass());
    d.S("factors", ok ? "available" : (ifacs.empty() ? "no class" : "no inverse anamorphosis matrix"));
    if (ok)
      for (size_t i = 0; i < ZV.size(); i += 2) d.VD("fac" + std::to_string(i), a->z2factor(ZV[i], ifacs));
  }
  if (a->allowChangeSupport() && a->getNClass() > 0) d.D("var.s", a->computeVariance(0.8));
}

// =========================================================================== Meshes
ASerializable* makeMeshETurbo(Rng& r)
{
  GridSpec g = makeGridSpec(r, 150, 2);
  bool polar = r.chance(0.5);
  if (r.chance(0.3))
  {
    VectorDouble sel(g.ntot, 1.);
    for (auto& s : sel) if (r.chance(0.15)) s = 0.;
    MeshETurbo* m = new MeshETurbo();
    if (m->initFromGridByAngles(g.nx, g.dx, g.x0, g.angles, sel, polar, false) == 0 && m->getNMeshes() > 0) return m;
    delete m;
  }
  return MeshETurbo::create(g.nx, g.dx, g.x0, g.angles, polar, false);
}
ASerializable* makeMeshEStandard(Rng& r)
{
  MeshSpec s = makeMeshSpec(r);
  MatrixRectangular ap(s.napices, s.ndim);
  for (int i = 0; i < s.napices; i++) for (int k = 0; k < s.ndim; k++) ap.setValue(i, k, s.pts[i][k]);
  MatrixInt ms(s.nmesh, s.ndim + 1);
  for (int i = 0; i < s.nmesh; i++) for (int k = 0; k <= s.ndim; k++) ms.setValue(i, k, s.cells[i][k]);
  return MeshEStandard::createFromExternal(ap, ms, false);
}
// meshing of the sphere: apices are (longitude, latitude) in degrees, meshes are triangles
ASerializable* makeMeshSpherical(Rng& r)
{
  int na = (int)r.range(4, 14);
  MatrixRectangular ap(na, 2);
  for (int i = 0; i < na; i++) { ap.setValue(i, 0, r.uniform(0., 359.)); ap.setValue(i, 1, r.uniform(-85., 85.)); }
  int nm = (int)r.range(1, 10);
  MatrixInt ms(nm, 3);
  for (int i = 0; i < nm; i++)
  {
    int a = (int)r.below(na), b = (int)r.below(na), cc = (int)r.below(na);
    if (b == a) b = (a + 1) % na;
    while (cc == a || cc == b) cc = (cc + 1) % na;
    ms.setValue(i, 0, a); ms.setValue(i, 1, b); ms.setValue(i, 2, cc);
  }
  return MeshSpherical::create(ap, ms);
}
bool meshHasBox(const AMesh* m) { return m->getNDim() > 0 && m->toString().find("Bounding Box") != std::string::npos; }
void describeMesh(const ASerializable* o, Desc& d)
{
  const AMesh* m = dynamic_cast<const AMesh*>(o);
  if (!m) { d.S("class", "not a mesh"); return; }
  int ndim = m->getNDim();
  d.I("ndim", ndim);
  d.I("ncorner", m->getNApexPerMesh());
  d.I("napices", m->getNApices());
  d.I("nmeshes", m->getNMeshes());
  d.I("hasbox", meshHasBox(m));
  if (const MeshEStandard* s = dynamic_cast<const MeshEStandard*>(o))
  {
    d.I("apices.nrows", s->getApices().getNRows());
    d.I("apices.ncols", s->getApices().getNCols());
    d.VD("apices", s->getApices().getValues());
    d.I("meshes.nrows", s->getMeshes().getNRows());
    d.I("meshes.ncols", s->getMeshes().getNCols());
    d.VI("meshes", s->getMeshes().getValues());
  }
  if (const MeshSpherical* s = dynamic_cast<const MeshSpherical*>(o))
  {
    d.I("apices.nrows", s->getApices().getNRows());
    d.I("apices.ncols", s->getApices().getNCols());
    d.VD("apices", s->getApices().getValues());
    d.I("meshes.nrows", s->getMeshes().getNRows());
    d.I("meshes.ncols", s->getMeshes().getNCols());
    d.VI("meshes", s->getMeshes().getValues());
  }
  if (const MeshETurbo* t = dynamic_cast<const MeshETurbo*>(o))
  {
    const Grid& g = t->getGrid();
    d.I("grid.ndim", g.getNDim());
    d.VI("grid.nx", g.getNXs());
    d.VD("grid.dx", g.getDXs());
    d.VD("grid.x0", g.getX0s());
    d.VD("grid.rotmat", g.getRotMat());
    d.I("meshmask.defined", t->getMeshIndirect().isDefined());
    d.I("meshmask.mode", t->getMeshIndirect().getMode());
    d.VI("meshmask", t->getMeshIndirect().getRelRanks());
    d.I("gridmask.defined", t->getGridIndirect().isDefined());
    d.VI("gridmask", t->getGridIndirect().getRelRanks());
  }
}
std::string consistentMesh(const ASerializable* o)
{
  const AMesh* m = dynamic_cast<const AMesh*>(o);
  if (!m) return "not a mesh";
  int ndim = m->getNDim(), na = m->getNApices(), nm = m->getNMeshes();
  if (na < 0 || nm < 0) return "negative dimensions";
  if ((na > 0 || nm > 0) && ndim < 1) return "space dimension " + std::to_string(ndim) + " with " + std::to_string(na) + " apices";
  if (const MeshEStandard* s = dynamic_cast<const MeshEStandard*>(o))
  {
    if (s->getApices().getNRows() > 0 && s->getApices().getNCols() != ndim) return "apices not sized by ndim";
    if (s->getMeshes().getNRows() > 0 && s->getMeshes().getNCols() != ndim + 1) return "param: meshes not sized by ndim+1";
    VectorInt v = s->getMeshes().getValues();
    for (int a : v) if (a < 0 || a >= na) return "mesh refers to apex " + std::to_string(a) + " of " + std::to_string(na);
  }
  if (const MeshSpherical* s = dynamic_cast<const MeshSpherical*>(o))
  {
    if (s->getApices().getNRows() != na) return "apices matrix not sized by the apex count";
    if (s->getMeshes().getNRows() != nm) return "meshes matrix not sized by the mesh count";
    VectorInt v = s->getMeshes().getValues();
    for (int a : v) if (a < 0 || a >= na) return "mesh refers to apex " + std::to_string(a) + " of " + std::to_string(na);
  }
  if (const MeshETurbo* t = dynamic_cast<const MeshETurbo*>(o))
  {
    const Grid& g = t->getGrid();
    if (g.getNDim() != ndim) return "grid dimension differs";
    if (ndim > 3) return "param: turbo meshing only exists for 1 to 3 dimensions";
    if (ndim > 0 && g.getNTotal() > 100000) return "";
    for (int k = 0; k < ndim; k++) if (g.getNX(k) < 1) return "param: grid count < 1";
    // the per-cell mesh count has no getter: an unset one shows up as an infinite mesh size
    // (an overflowing cell size - DX near the largest double - shows up the same way: reach probe only)
    if (nm > 0 && !std::isfinite(t->getMeshSize(0))) return "param: mesh size is not finite";
    for (int im = 0; im < nm && im < 2000; im++)
      for (int c = 0; c <= ndim; c++)
      {
        int a = t->getApex(im, c);
        if (a < 0 || a >= na) return "mesh " + std::to_string(im) + " refers to apex " + std::to_string(a) + " of " + std::to_string(na);
      }
  }
  return "";
}
void probeMesh(ASerializable* o, Desc& d)
{
  AMesh* m = dynamic_cast<AMesh*>(o);
  if (!m) return;
  std::string why = consistentMesh(o);
  d.S("consistent", why);
  if (!why.empty()) return;
  int ndim = m->getNDim(), na = m->getNApices(), nm = m->getNMeshes(), nc = m->getNApexPerMesh();
  if (ndim < 1) return;
  if (meshHasBox(m)) // bounding box: derived from the apices or the grid
    for (int k = 0; k < ndim; k++)
    {
      d.D("extmin" + std::to_string(k), m->getExtendMin(k));
      d.D("extmax" + std::to_string(k), m->getExtendMax(k));
    }
  int pick[4] = {0, nm / 3, nm / 2, nm - 1};
  VectorDouble sizes; // one vector: the size of a thin mesh is known to the rounding of its edges, i.e. relative to the larger ones
  for (int q = 0; q < 4; q++)
  {
    int im = pick[q];
    if (im < 0 || im >= nm) continue;
    std::string k = "m" + std::to_string(q);
    for (int c = 0; c < nc; c++)
    {
      d.I(k + ".apex" + std::to_string(c), m->getApex(im, c));
      for (int i = 0; i < ndim; i++) d.D(k + ".c" + std::to_string(c) + std::to_string(i), m->getCoor(im, c, i));
    }
    sizes.push_back(m->getMeshSize(im));
  }
  if (dynamic_cast<MeshSpherical*>(m) != nullptr) sizes.push_back(12.566370614359172); // the whole unit sphere: scale of spherical areas
  d.VD("msize", sizes);
  int pa[3] = {0, na / 2, na - 1};
  for (int q = 0; q < 3; q++)
    if (pa[q] >= 0 && pa[q] < na)
      for (int i = 0; i < ndim; i++) d.D("a" + std::to_string(q) + "." + std::to_string(i), m->getApexCoor(pa[q], i));
}

// =========================================================================== Table
ASerializable* makeTable(Rng& r)
{
  NamePool np;
  int nrow = r.chance(0.05) ? 0 : (int)r.range(1, 8);
  int ncol = r.chance(0.05) ? 0 : (int)r.range(1, 6);
  Table* t = nullptr;
  if (r.chance(0.4) && nrow > 0 && ncol > 0)
  {
    VectorString rn, cn;
    for (int i = 0; i < nrow; i++) rn.push_back("row" + std::string(1, char('a' + i)));
    for (int j = 0; j < ncol; j++) cn.push_back(np.take(r));
    t = Table::createFromNames(rn, cn);
  }
  else
  {
    t = Table::create(nrow, ncol);
    if (r.chance(0.4)) for (int j = 0; j < ncol; j++) t->setColumnName(j, np.take(r));
    if (r.chance(0.3)) for (int i = 0; i < nrow; i++) t->setRowName(i, "line" + std::string(1, char('a' + i)));
  }
  for (int i = 0; i < nrow; i++) for (int j = 0; j < ncol; j++) t->setValue(i, j, cellValue(r));
  if (r.chance(0.5)) t->setTitle(r.chance(0.5) ? "statistics" : "table of results");
  return t;
}
void describeTable(const ASerializable* o, Desc& d)
{
  const Table* t = dynamic_cast<const Table*>(o);
  if (!t) { d.S("class", "not a Table"); return; }
  d.I("nrows", t->getNRows());
  d.I("ncols", t->getNCols());
  d.S("title", t->getTitle());
  d.VS("rownames", t->getRowNames());
  d.VS("colnames", t->getColumnNames());
  for (int i = 0; i < t->getNRows(); i++)
    for (int j = 0; j < t->getNCols(); j++) d.D("v" + std::to_string(i) + "." + std::to_string(j), t->getValue(i, j));
}
std::string consistentTable(const ASerializable* o)
{
  const Table* t = dynamic_cast<const Table*>(o);
  if (!t) return "not a Table";
  int nr = t->getNRows(), nc = t->getNCols();
  if (nr < 0 || nc < 0) return "param: negative dimensions";
  if ((long)t->getValues().size() != (long)nr * nc) return "values not sized rows x cols";
  if (!t->getRowNames().empty() && (int)t->getRowNames().size() != nr) return "row names not sized by rows";
  if (!t->getColumnNames().empty() && (int)t->getColumnNames().size() != nc) return "column names not sized by columns";
  return "";
}
void probeTable(ASerializable* o, Desc& d)
{
  Table* t = dynamic_cast<Table*>(o);
  if (!t) return;
  std::string why = consistentTable(o);
  d.S("consistent", why);
  if (!why.empty()) return;
  int nr = t->getNRows(), nc = t->getNCols();
  if (nr < 1 || nc < 1) return;
  d.D("first", t->getValue(0, 0));
  d.D("last", t->getValue(nr - 1, nc - 1));
  d.D("mid", t->getValue(nr / 2, nc / 2));
  // the name getters index the name vectors without checking that they were ever filled
  bool rn = (int)t->getRowNames().size() == nr, cn = (int)t->getColumnNames().size() == nc;
  d.S("rowname0", rn ? t->getRowName(0) : std::string("<unnamed>"));
  d.S("colname0", cn ? t->getColumnName(0) : std::string("<unnamed>"));
  d.S("colnameLast", cn ? t->getColumnName(nc - 1) : std::string("<unnamed>"));
  d.VD("range0", t->getRange(0));
}

// =========================================================================== Rules
void ruleTree(Rng& r, int depth, int& nfac, bool onlyY1, VectorString& out)
{
  bool leaf = depth >= 3 || (depth > 0 && r.chance(0.4)) || nfac >= 7;
  if (leaf) { out.push_back("F" + std::to_string(++nfac)); return; }
  out.push_back((onlyY1 || r.chance(0.5)) ? "S" : "T");
  ruleTree(r, depth + 1, nfac, onlyY1, out);
  ruleTree(r, depth + 1, nfac, onlyY1, out);
}
ASerializable* makeRule(Rng& r)
{
  double rho = r.chance(0.6) ? 0. : r.uniform(-0.9, 0.9);
  Rule* rule = nullptr;
  if (r.chance(0.3)) rule = Rule::createFromFaciesCount((int)r.range(2, 6), rho);
  else
  {
    VectorString names;
    int nfac = 0;
    ruleTree(r, 0, nfac, false, names);
    rule = Rule::createFromNames(names, rho);
  }
  if (rule == nullptr) rule = Rule::createFromFaciesCount(3, 0.);
  return rule;
}
ASerializable* makeRuleShift(Rng& r)
{
  VectorDouble shift;
  int ns = (int)r.range(2, 3);
  for (int k = 0; k < ns; k++) shift.push_back(r.chance(0.3) ? (double)r.range(0, 3) : r.uniform(0.1, 2.));
  if (shift[0] == 0. && shift[1] == 0.) shift[0] = 0.5;
  RuleShift* rule = nullptr;
  if (r.chance(0.4)) rule = RuleShift::createFromFaciesCount((int)r.range(2, 5), shift);
  else
  {
    VectorString names;
    int nfac = 0;
    ruleTree(r, 0, nfac, true, names);
    rule = RuleShift::createFromNames(names, shift);
  }
  if (rule == nullptr) rule = RuleShift::createFromFaciesCount(3, shift);
  return rule;
}
ASerializable* makeRuleShadow(Rng& r)
{
  VectorDouble shift = {r.uniform(0.1, 2.), r.chance(0.3) ? 0. : r.uniform(-1., 1.), r.chance(0.5) ? 0. : r.uniform(0.1, 1.)};
  return new RuleShadow(r.uniform(5., 60.), r.uniform(0.1, 2.), r.uniform(0.1, 2.), shift);
}
void describeNode(const Node* n, const std::string& k, int depth, Desc& d)
{
  if (n == nullptr) { d.S(k, "none"); return; }
  if (depth > 40) { d.S(k, "too deep"); return; }
  d.I(k + ".leaf", n->getR1() == nullptr && n->getR2() == nullptr); // (node labels are regenerated: not compared)
  d.I(k + ".orient", n->getOrient());
  if (n->getR1() != nullptr || n->getR2() != nullptr)
  {
    describeNode(n->getR1(), k + "a", depth + 1, d);
    describeNode(n->getR2(), k + "b", depth + 1, d);
  }
  else
    d.I(k + ".facies", n->getFacies()); // only meaningful on leaves
}
void describeRule(const ASerializable* o, Desc& d)
{
  const Rule* r = dynamic_cast<const Rule*>(o);
  if (!r) { d.S("class", "not a Rule"); return; }
  d.I("mode", r->getModeRule().getValue());
  d.D("rho", r->getRho());
  if (r->getMainNode() != nullptr)
  {
    int nn, nf, nmax, ny1, ny2;
    double pt;
    r->statistics(0, &nn, &nf, &nmax, &ny1, &ny2, &pt);
    d.I("nnodes", nn);
    d.I("nfacies", nf);
    d.I("ny1", ny1);
    d.I("ny2", ny2);
  }
  describeNode(r->getMainNode(), "n", 0, d);
  if (const RuleShift* s = dynamic_cast<const RuleShift*>(o))
  {
    d.D("slope", s->getSlope());
    d.D("shdown", s->getShDown());
    d.D("shdsup", s->getShDsup());
    d.VD("shift", s->getShift());
  }
  if (const RuleShadow* s = dynamic_cast<const RuleShadow*>(o))
  {
    d.D("slope", s->getSlope());
    d.D("shdown", s->getShDown());
    d.D("shdsup", s->getShDsup());
    d.VD("shift", s->getShift());
  }
}
std::string checkNode(const Node* n, int depth)
{
  if (n == nullptr) return "missing node";
  if (depth > 40) return "tree too deep";
  bool leaf = n->getR1() == nullptr && n->getR2() == nullptr;
  if (leaf) return n->getFacies() >= 1 ? "" : "leaf without facies";
  if (n->getR1() == nullptr || n->getR2() == nullptr) return "threshold node with one child";
  if (n->getOrient() != 1 && n->getOrient() != 2) return "threshold node with orientation " + std::to_string(n->getOrient());
  std::string s = checkNode(n->getR1(), depth + 1);
  return s.empty() ? checkNode(n->getR2(), depth + 1) : s;
}
void leafFacies(const Node* n, int depth, std::vector<int>& out)
{
  if (n == nullptr || depth > 40) return;
  if (n->getR1() == nullptr && n->getR2() == nullptr) { out.push_back(n->getFacies()); return; }
  leafFacies(n->getR1(), depth + 1, out);
  leafFacies(n->getR2(), depth + 1, out);
}
std::string consistentRule(const ASerializable* o)
{
  const Rule* r = dynamic_cast<const Rule*>(o);
  if (!r) return "not a Rule";
  if (r->getMainNode() == nullptr) return "param: no main node";
  std::string s = checkNode(r->getMainNode(), 0);
  if (!s.empty()) return "param: " + s;
  std::vector<int> fac;
  leafFacies(r->getMainNode(), 0, fac);
  std::sort(fac.begin(), fac.end());
  for (size_t i = 0; i < fac.size(); i++)
  {
    if (fac[i] < 1 || fac[i] > (int)fac.size()) return "param: facies " + std::to_string(fac[i]) + " outside 1.." + std::to_string(fac.size());
    if (i > 0 && fac[i] == fac[i - 1]) return "param: facies " + std::to_string(fac[i]) + " on two leaves";
  }
  if (!(r->getRho() >= -1. && r->getRho() <= 1.)) return "param: correlation outside [-1,1]";
  if (const RuleShift* q = dynamic_cast<const RuleShift*>(o))
    if (q->getShift().size() < 2) return "param: shift vector has fewer than 2 components";
  return "";
}
void probeRule(ASerializable* o, Desc& d)
{
  Rule* r = dynamic_cast<Rule*>(o);
  if (!r) return;
  std::string why = consistentRule(o);
  d.S("consistent", why);
  if (!why.empty()) return;
  d.I("nfac", r->getFaciesNumber());
  d.I("ngrf", r->getGRFNumber());
  d.I("setprop", r->setProportions());
  static const double Y[5] = {-1.5, -0.4, 0., 0.7, 2.};
  VectorInt f;
  for (int i = 0; i < 5; i++) for (int j = 0; j < 5; j++) f.push_back(r->getFaciesFromGaussian(Y[i], Y[j]));
  d.VI("facies", f);
  for (int k = 1; k <= r->getFaciesNumber() && k <= 8; k++) d.VD("thresh" + std::to_string(k), r->getThresh(k));
}

// =========================================================================== Fractures
ASerializable* makeFracEnviron(Rng& r)
{
  FracEnviron* e = FracEnviron::create(r.uniform(50., 500.), r.uniform(20., 200.), r.chance(0.3) ? 0. : r.uniform(0., 30.),
                                       r.chance(0.3) ? 0. : r.uniform(0., 10.), r.uniform(5., 30.), r.uniform(0.5, 8.));
  int nfam = (int)r.below(4);
  for (int i = 0; i < nfam; i++)
    e->addFamily(FracFamily(r.uniform(-90., 90.), r.uniform(0., 20.), r.uniform(0.01, 0.5), r.chance(0.3) ? 1. : r.uniform(0., 2.),
                            r.uniform(0., 1.), r.uniform(0., 1.), r.uniform(0., 1.), r.uniform(0., 3.), r.uniform(0., 3.),
                            r.uniform(1., 20.)));
  int nfault = nfam == 0 ? 0 : (int)r.below(4);
  for (int i = 0; i < nfault; i++)
  {
    FracFault f(r.uniform(0., 400.), r.uniform(-60., 60.));
    for (int k = 0; k < nfam; k++) f.addFaultPerFamily(r.uniform(0., 2.), r.uniform(0., 2.), r.uniform(1., 40.), r.uniform(1., 40.));
    e->addFault(f);
  }
  return e;
}
void describeFrac(const ASerializable* o, Desc& d)
{
  const FracEnviron* e = dynamic_cast<const FracEnviron*>(o);
  if (!e) { d.S("class", "not a FracEnviron"); return; }
  d.D("xmax", e->getXmax()); d.D("ymax", e->getYmax());
  d.D("deltax", e->getDeltax()); d.D("deltay", e->getDeltay());
  d.D("mean", e->getMean()); d.D("stdev", e->getStdev());
  d.I("nfamilies", e->getNFamilies());
  d.I("nfaults", e->getNFaults());
  for (int i = 0; i < e->getNFamilies(); i++)
  {
    const FracFamily& f = e->getFamily(i);
    std::string k = "fam" + std::to_string(i);
    d.D(k + ".orient", f.getOrient()); d.D(k + ".dorient", f.getDorient());
    d.D(k + ".theta0", f.getTheta0()); d.D(k + ".alpha", f.getAlpha());
    d.D(k + ".ratcst", f.getRatcst()); d.D(k + ".prop1", f.getProp1());
    d.D(k + ".prop2", f.getProp2());   d.D(k + ".aterm", f.getAterm());
    d.D(k + ".bterm", f.getBterm());   d.D(k + ".range", f.getRange());
  }
  for (int i = 0; i < e->getNFaults(); i++)
  {
    const FracFault& f = e->getFault(i);
    std::string k = "fault" + std::to_string(i);
    d.D(k + ".coord", f.getCoord()); d.D(k + ".orient", f.getOrient());
    d.I(k + ".nfam", f.getNFamilies());
    d.VD(k + ".thetal", f.getThetal()); d.VD(k + ".thetar", f.getThetar());
    d.VD(k + ".rangel", f.getRangel()); d.VD(k + ".ranger", f.getRanger());
  }
}
std::string consistentFrac(const ASerializable* o)
{
  const FracEnviron* e = dynamic_cast<const FracEnviron*>(o);
  if (!e) return "not a FracEnviron";
  for (int i = 0; i < e->getNFaults(); i++)
  {
    const FracFault& f = e->getFault(i);
    size_t n = f.getThetal().size();
    if (f.getThetar().size() != n || f.getRangel().size() != n || f.getRanger().size() != n)
      return "fault " + std::to_string(i) + ": per-family vectors differ in size";
    if ((int)n != e->getNFamilies()) return "fault " + std::to_string(i) + ": per-family vectors not sized by family count";
  }
  return "";
}
void probeFrac(ASerializable* o, Desc& d)
{
  FracEnviron* e = dynamic_cast<FracEnviron*>(o);
  if (!e) return;
  std::string why = consistentFrac(o);
  d.S("consistent", why);
  if (!why.empty()) return;
  d.D("xextend", e->getXextend());
  for (int i = 0; i < e->getNFaults(); i++) d.D("absc" + std::to_string(i), e->getFault(i).faultAbscissae(10.));
}

// =========================================================================== Db family adapters
void describeDbAny(const ASerializable* o, Desc& d)
{
  const Db* db = dynamic_cast<const Db*>(o);
  if (!db) { d.S("class", "not a Db"); return; }
  describeDbCommon(db, d);
  if (const DbGrid* g = dynamic_cast<const DbGrid*>(o)) describeGridPart(g, d);
  if (const DbLine* l = dynamic_cast<const DbLine*>(o)) describeDbLinePart(l, d);
  if (const DbGraphO* g = dynamic_cast<const DbGraphO*>(o)) describeDbGraphPart(g, d);
  if (const DbMeshTurbo* m = dynamic_cast<const DbMeshTurbo*>(o)) describeDbMeshPart(m, m->getNDim() + 1, d);
  if (const DbMeshStandard* m = dynamic_cast<const DbMeshStandard*>(o)) describeDbMeshPart(m, m->getNDim() + 1, d);
}
std::string consistentDbAny(const ASerializable* o)
{
  const Db* db = dynamic_cast<const Db*>(o);
  if (!db) return "not a Db";
  std::string s = consistentDbCommon(db);
  if (!s.empty()) return s;
  if (const DbGrid* g = dynamic_cast<const DbGrid*>(o))
  {
    if (!g->isConsistent()) return "grid node count != sample count";
    long n = 1;
    for (int k = 0; k < g->getNDim(); k++)
    {
      if (g->getNX(k) < 0) return "negative grid count";
      if (g->getDX(k) < 0.) return "negative grid mesh";
      if (g->getNX(k) < 1) return "param: grid count < 1";
      if (!(g->getDX(k) > 0.)) return "param: grid mesh <= 0";
      n *= g->getNX(k);
    }
    if (g->getNDim() > 0 && n != g->getSampleNumber()) return "product of nx != sample count";
    if ((int)g->getAngles().size() != g->getNDim()) return "angles not sized by ndim";
  }
  if (const DbLine* l = dynamic_cast<const DbLine*>(o)) { s = consistentDbLine(l); if (!s.empty()) return s; }
  if (const DbGraphO* g = dynamic_cast<const DbGraphO*>(o)) { s = consistentDbGraph(g); if (!s.empty()) return s; }
  if (const DbMeshTurbo* m = dynamic_cast<const DbMeshTurbo*>(o))
  {
    if (m->getNDim() < 1 && m->getNMeshes() > 0) return "param: meshes without space dimension";
    s = consistentDbMesh(m, m->getNDim() + 1);
    if (!s.empty()) return s;
  }
  if (const DbMeshStandard* m = dynamic_cast<const DbMeshStandard*>(o)) { s = consistentDbMesh(m, m->getNDim() + 1); if (!s.empty()) return s; }
  return "";
}
void probeDbAny(ASerializable* o, Desc& d) { d.S("consistent", consistentDbAny(o)); }

template<class T> std::function<ASerializable*(const std::string&)> nfLoader()
{
  return [](const std::string& p) -> ASerializable* { return T::createFromNF(p, false); };
}

std::vector<ClassAdapter> buildAdapters()
{
  std::vector<ClassAdapter> v;
  auto add = [&](const std::string& name, std::function<ASerializable*(Rng&)> mk, std::function<ASerializable*()> bl,
                 std::function<ASerializable*(const std::string&)> nf, std::function<void(const ASerializable*, Desc&)> ds,
                 std::function<std::string(const ASerializable*)> cs, std::function<void(ASerializable*, Desc&)> pr)
  {
    ClassAdapter a;
    a.name = name; a.make = mk; a.blank = bl; a.fromNF = nf; a.describe = ds; a.consistent = cs; a.probe = pr;
    v.push_back(a);
  };
  add("Db", makeDb, [] { return (ASerializable*)new Db(); }, nfLoader<Db>(), describeDbAny, consistentDbAny, probeDbAny);
  add("DbGrid", makeDbGrid, [] { return (ASerializable*)new DbGrid(); }, nfLoader<DbGrid>(), describeDbAny, consistentDbAny, probeDbAny);
  add("DbLine", makeDbLine, [] { return (ASerializable*)new DbLine(); }, nfLoader<DbLine>(), describeDbAny, consistentDbAny, probeDbAny);
  add("DbGraphO", makeDbGraphO, [] { return (ASerializable*)new DbGraphO(); }, nfLoader<DbGraphO>(), describeDbAny, consistentDbAny, probeDbAny);
  add("DbMeshTurbo", makeDbMeshTurbo, [] { return (ASerializable*)new DbMeshTurbo(); }, nfLoader<DbMeshTurbo>(), describeDbAny, consistentDbAny, probeDbAny);
  add("DbMeshStandard", makeDbMeshStandard, [] { return (ASerializable*)new DbMeshStandard(1, 2, VectorDouble(), VectorInt()); } /* the default arguments (ndim = 0) divide by zero */, nfLoader<DbMeshStandard>(), describeDbAny, consistentDbAny, probeDbAny);
  add("Model", makeModel, [] { return (ASerializable*)new Model(); }, nfLoader<Model>(), describeModel, consistentModel, probeModel);
  add("NeighUnique", makeNeighUnique, [] { return (ASerializable*)new NeighUnique(); }, nfLoader<NeighUnique>(), describeNeigh, consistentNeigh, probeNeigh);
  add("NeighMoving", makeNeighMoving, [] { return (ASerializable*)new NeighMoving(); }, nfLoader<NeighMoving>(), describeNeigh, consistentNeigh, probeNeigh);
  add("NeighBench", makeNeighBench, [] { return (ASerializable*)new NeighBench(); }, nfLoader<NeighBench>(), describeNeigh, consistentNeigh, probeNeigh);
  add("NeighCell", makeNeighCell, [] { return (ASerializable*)new NeighCell(); }, nfLoader<NeighCell>(), describeNeigh, consistentNeigh, probeNeigh);
  add("NeighImage", makeNeighImage, [] { return (ASerializable*)new NeighImage(); }, nfLoader<NeighImage>(), describeNeigh, consistentNeigh, probeNeigh);
  add("Vario", makeVario, [] { return (ASerializable*)new Vario(VarioParam()); }, nfLoader<Vario>(), describeVario, consistentVario, probeVario);
  add("Polygons", makePolygons, [] { return (ASerializable*)new Polygons(); }, nfLoader<Polygons>(), describePolygons, consistentPolygons, probePolygons);
  add("PolyLine2D", makePolyLine, [] { return (ASerializable*)new PolyLine2D(); }, nfLoader<PolyLine2D>(), describePolyLine, consistentPolyLine, probePolyLine);
  add("AnamHermite", makeAnamHermite, [] { return (ASerializable*)new AnamHermite(); }, nfLoader<AnamHermite>(), describeAnam, consistentAnam, probeAnam);
  add("AnamEmpirical", makeAnamEmpirical, [] { return (ASerializable*)new AnamEmpirical(); }, nfLoader<AnamEmpirical>(), describeAnam, consistentAnam, probeAnam);
  add("AnamDiscreteDD", makeAnamDD, [] { return (ASerializable*)new AnamDiscreteDD(); }, nfLoader<AnamDiscreteDD>(), describeAnam, consistentAnam, probeAnam);
  add("AnamDiscreteIR", makeAnamIR, [] { return (ASerializable*)new AnamDiscreteIR(); }, nfLoader<AnamDiscreteIR>(), describeAnam, consistentAnam, probeAnam);
  add("MeshETurbo", makeMeshETurbo, [] { return (ASerializable*)new MeshETurbo(); }, nfLoader<MeshETurbo>(), describeMesh, consistentMesh, probeMesh);
  add("MeshEStandard", makeMeshEStandard, [] { return (ASerializable*)new MeshEStandard(); }, nfLoader<MeshEStandard>(), describeMesh, consistentMesh, probeMesh);
  add("Table", makeTable, [] { return (ASerializable*)new Table(); }, nfLoader<Table>(), describeTable, consistentTable, probeTable);
  add("Rule", makeRule, [] { return (ASerializable*)new Rule(); }, nfLoader<Rule>(), describeRule, consistentRule, probeRule);
  add("RuleShift", makeRuleShift, [] { return (ASerializable*)new RuleShift(); }, nullptr, describeRule, consistentRule, probeRule);
  add("RuleShadow", makeRuleShadow, [] { return (ASerializable*)new RuleShadow(); }, nullptr, describeRule, consistentRule, probeRule);
  add("MeshSpherical", makeMeshSpherical, [] { return (ASerializable*)new MeshSpherical(); }, nfLoader<MeshSpherical>(), describeMesh, consistentMesh, probeMesh);
  add("PolyElem", makePolyElem, [] { return (ASerializable*)new PolyElem(); }, nfLoader<PolyElem>(), describePolyElem, consistentPolyLine, probePolyLine);
  add("Faults", makeFaults, [] { return (ASerializable*)new Faults(); }, nfLoader<Faults>(), describeFaults, consistentFaults, probeFaults);
  add("FracEnviron", makeFracEnviron, [] { return (ASerializable*)new FracEnviron(); }, nfLoader<FracEnviron>(), describeFrac, consistentFrac, probeFrac);
  return v;
}

} // namespace

const std::vector<ClassAdapter>& adapters()
{
  static const std::vector<ClassAdapter> v = buildAdapters();
  return v;
}
const ClassAdapter* findAdapter(const std::string& name)
{
  for (const ClassAdapter& a : adapters())
    if (a.name == name) return &a;
  return nullptr;
}

} // namespace sk
