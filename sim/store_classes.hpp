// Class adapters for the `store` workloads (C08 round trip, C09 damaged files).
// One adapter per serialisable class: how to generate an instance from a PRNG, how to get a
// blank instance for deserialize(std::istream&), how to load through the path API, which
// getters make up "all defining parameters and values", which class invariants an object
// built through the API satisfies, and a small usability probe ("answers queries identically").
#pragma once
#include "core.hpp"

#include "Basic/ASerializable.hpp"

#include <functional>
#include <memory>
#include <string>
#include <vector>

namespace sk {

// A flat description of an object: ordered (key, value) entries.
struct Desc
{
  struct Entry
  {
    std::string key;
    int kind; // 0 integer/bool, 1 double, 2 string
    long i = 0;
    double d = 0;
    std::string s;
  };
  std::vector<Entry> e;
  void I(const std::string& k, long v) { Entry x; x.key = k; x.kind = 0; x.i = v; e.push_back(x); }
  void D(const std::string& k, double v) { Entry x; x.key = k; x.kind = 1; x.d = v; e.push_back(x); }
  void S(const std::string& k, const std::string& v) { Entry x; x.key = k; x.kind = 2; x.s = v; e.push_back(x); }
  template<class V> void VD(const std::string& k, const V& v)
  {
    I(k + ".size", (long)v.size());
    for (size_t j = 0; j < v.size(); j++) D(k + "[" + std::to_string(j) + "]", (double)v[j]);
  }
  template<class V> void VI(const std::string& k, const V& v)
  {
    I(k + ".size", (long)v.size());
    for (size_t j = 0; j < v.size(); j++) I(k + "[" + std::to_string(j) + "]", (long)v[j]);
  }
  template<class V> void VS(const std::string& k, const V& v)
  {
    I(k + ".size", (long)v.size());
    for (size_t j = 0; j < v.size(); j++) S(k + "[" + std::to_string(j) + "]", v[j]);
  }
};
// first difference between two descriptions ("" if equivalent). Doubles agree when both are
// undefined (TEST/NaN) or |a-b| <= relTol*max(|a|,|b|) (+ absTol); integers and strings exactly.
std::string descDiff(const Desc& a, const Desc& b, double relTol = 5e-15, double absTol = 0.);

struct ClassAdapter
{
  std::string name;                                              // class tag, e.g. "Model"
  std::function<ASerializable*(Rng&)> make;                      // owning pointer; never nullptr
  std::function<ASerializable*()> blank;                         // owning pointer to a default-constructed instance
  std::function<ASerializable*(const std::string&)> fromNF;      // X::createFromNF(path, false) or empty function
  std::function<void(const ASerializable*, Desc&)> describe;     // defining parameters and values through public getters
  std::function<std::string(const ASerializable*)> consistent;   // "" when the class invariants hold, else what is broken
  std::function<void(ASerializable*, Desc&)> probe;              // usability: fixed queries whose answers are recorded
};

const std::vector<ClassAdapter>& adapters();
const ClassAdapter* findAdapter(const std::string& name);

} // namespace sk
