// C10 — results depend only on the arguments, not on what was called before.
// C13 — simulations are reproducible from their seed and honour their conditioning.
// Workload "world": a recipe (world construction + one observed call) is executed bare in one
// fresh child (A) and interleaved with a seeded sequence of perturbing calls in a sibling child
// (B); observed results must agree bit for bit. Perturbations must leave the recipe's argument
// objects (read back through serialisation/digests) unchanged.
#include "worldgen.hpp"
#include "OutputFormat/AOF.hpp"
#include <unistd.h>
#include "store_classes.hpp"
#include "Basic/ICloneable.hpp"

#include "Basic/Law.hpp"
#include "Basic/OptCst.hpp"
#include "Basic/OptCustom.hpp"
#include "Basic/OptDbg.hpp"
#include "Basic/VerifHook.hpp"
#include "Calculators/CalcMigrate.hpp"
#include "Enum/ECalcVario.hpp"
#include "Enum/EKrigOpt.hpp"
#include "Estimation/CalcKriging.hpp"
#include "Estimation/KrigingCalcul.hpp"
#include "Covariances/CovAniso.hpp"
#include "Covariances/CovContext.hpp"
#include "Matrix/MatrixRectangular.hpp"
#include "Matrix/MatrixSparse.hpp"
#include "Matrix/MatrixSquareSymmetric.hpp"
#include "Simulation/CalcSimuFFT.hpp"
#include "Simulation/CalcSimuTurningBands.hpp"
#include "Simulation/SimuFFTParam.hpp"
#include "Space/ASpaceObject.hpp"
#include "Variogram/Vario.hpp"
#include "Variogram/VarioParam.hpp"
#include "geoslib_f.h"
#include "LithoRule/Rule.hpp"
#include "LithoRule/RuleProp.hpp"

using namespace sk;

namespace {

// ---------------------------------------------------------------- digests / read-back
std::string serialHash(const ASerializable* o)
{
  if (!o) return "null";
  std::ostringstream os;
  o->serialize(os, false);
  return Digest().hex().substr(0, 0) + std::to_string(hstr(os.str()));
}
void digestMatrix(Digest& d, const AMatrix& m)
{
  d.i(m.getNRows());
  d.i(m.getNCols());
  VectorDouble v = m.getValues();
  for (double x : v) d.d(x);
}
long g_lastDefined = -1; // defined values among the columns digested last (a result with none cannot vary with the seed)
std::string newColumnsDigest(const Db* db, int ncolBefore)
{
  Digest d;
  if (!db) return "null";
  g_lastDefined = 0;
  for (int ic = ncolBefore; ic < db->getColumnNumber(); ic++)
  {
    d.s(db->getNameByColIdx(ic));
    VectorDouble v = db->getColumnByColIdx(ic, false, false);
    for (double x : v) { d.d(FFFF(x) ? std::nan("") : x); if (!FFFF(x) && !std::isnan(x)) g_lastDefined++; }
  }
  d.i(db->getColumnNumber() - ncolBefore);
  return d.hex();
}
// logical content of the recipe's argument objects
// Model content without its 'field' (the extension of the last data set it was used with: an
// operating value that every calculator overwrites before use, not a defining parameter)
std::string modelHash(const Model* m)
{
  if (!m) return "null";
  std::ostringstream os;
  m->serialize(os, false);
  std::string t = os.str();
  // tokens: ndim nvar field ...
  size_t p = 0;
  int tok = 0;
  while (p < t.size() && tok < 3)
  {
    while (p < t.size() && isspace((unsigned char)t[p])) p++;
    size_t q = p;
    while (q < t.size() && !isspace((unsigned char)t[q])) q++;
    if (tok == 2) { t.replace(p, q - p, "F"); break; }
    p = q;
    tok++;
  }
  return std::to_string(hstr(t));
}
std::string readBack(const World& W)
{
  return dbDigest(W.dbin) + ":" + dbDigest(W.dbout) + ":" + modelHash(W.model) + ":" + serialHash(dynamic_cast<ASerializable*>(W.neigh));
}

// ---------------------------------------------------------------- observed calls
const char* OBS10[] = {"covmat", "covmat-optim", "covmat-symoptim", "kriging", "xvalid", "vario", "vario-fit", "migrate", "frombox", "addrandom",
                       "simgauss", "simtub", "simtub-nc", "simfft", "kcalc", "kcalc", "kriging", "kcalc", "kcalc", "kriging",
                       "vario-gen", "vario-gen", "vario-dirs", "simpgs", "simbipgs", "grid-exchange", "simbayes", "kribayes"};
const int NOBS10 = 28;
const char* OBS13[] = {"simtub", "simtub-nc", "simfft", "gibbs", "simtub", "simtub-nc", "simpgs", "simpgs", "gibbs", "simbipgs", "simbayes"};
const int NOBS13 = 11;

int freeTargets(const World& W);
long freeDefinedValues(const World& W, int ncolBefore);

struct Observed
{
  std::string digest;
  int ret = 0;
  long freeDefined = -1; // simulations: defined values at active targets that do not sit on a datum (-1: not counted)
};

// executes the observed call on W (or on clones for the "other seed" variant); returns digest
Observed observe(World& W, const Op& op, int seedShift, Ctx* c, bool judge13, long route = 0)
{
  Observed o;
  const std::string k = op.S(0, "covmat");
  int seed = 1000 + (int)(std::labs(op.I(0)) % 50000) + seedShift;
  int a = (int)op.I(1), b = (int)op.I(2);
  Digest d;
  if (k == "covmat" || k == "covmat-optim" || k == "covmat-symoptim")
  {
    if (k == "covmat") { MatrixRectangular m = W.model->evalCovMatrix(W.dbin, a % 2 ? W.dbout : nullptr); digestMatrix(d, m); }
    else if (k == "covmat-optim") { MatrixRectangular m = W.model->evalCovMatrixOptim(W.dbin, a % 2 ? W.dbout : nullptr); digestMatrix(d, m); }
    else { MatrixSquareSymmetric m = W.model->evalCovMatrixSymmetricOptim(W.dbin); digestMatrix(d, m); }
    o.digest = d.hex();
    return o;
  }
  if (k == "kcalc")
  {
    // KrigingCalcul: lazily computed matrices with a hand-written invalidation graph. route 0: a fresh object
    // given its inputs once; route > 0: the same final inputs reached through a seeded sequence of updates
    // interleaved with getters ("an object updated incrementally answers as a freshly built one")
    int n = W.dbin->getSampleNumber(true);
    int nt = std::min(4, W.dbout->getSampleNumber());
    MatrixSquareSymmetric Sigma = W.model->evalCovMatrixSymmetric(W.dbin);
    VectorInt tg;
    for (int i = 0; i < W.dbout->getSampleNumber() && (int)tg.size() < 4; i++) if (W.dbout->isActive(i)) tg.push_back(i);
    nt = (int)tg.size();
    if (nt < 1) { o.digest = "kcalc-skip"; return o; }
    MatrixRectangular Sigma0 = W.model->evalCovMatrix(W.dbin, W.dbout, -1, -1, VectorInt(), tg);
    MatrixRectangular S00r = W.model->evalCovMatrix(W.dbout, W.dbout, -1, -1, tg, tg);
    if (S00r.getNRows() != nt || S00r.getNCols() != nt) { o.digest = "kcalc-skip"; return o; }
    MatrixSquareSymmetric Sigma00(nt);
    for (int i = 0; i < nt; i++) for (int j = 0; j <= i; j++) Sigma00.setValue(i, j, S00r.getValue(i, j));
    n = Sigma.getNRows();
    if (n < 3 || Sigma0.getNRows() != n || Sigma0.getNCols() != nt) { o.digest = "kcalc-skip"; return o; }
    bool withDrift = a % 2 == 0;
    int nbfl = withDrift ? 1 + b % 2 : 0;
    MatrixRectangular X(n, std::max(nbfl, 1)), X0(nt, std::max(nbfl, 1));
    VectorInt act = W.dbin->getRanksActive();
    VectorDouble Z(n);
    {
      int row = 0;
      for (int ie = 0; ie < W.dbin->getSampleNumber() && row < n; ie++)
      {
        if (!W.dbin->isActive(ie) || isUndef(W.dbin->getZVariable(ie, 0))) continue;
        Z[row] = W.dbin->getZVariable(ie, 0);
        X.setValue(row, 0, 1.);
        if (nbfl > 1) X.setValue(row, 1, W.dbin->getCoordinate(ie, 0));
        row++;
      }
      for (int it = 0; it < nt; it++) { X0.setValue(it, 0, 1.); if (nbfl > 1) X0.setValue(it, 1, W.dbout->getCoordinate(tg[it], 0)); }
    }
    VectorDouble means = {10.};
    // alternates (other inputs of the same shapes) used by the incremental route
    VectorDouble Z2 = Z;
    for (auto& z : Z2) z = 2. * z + 1.;
    MatrixSquareSymmetric SigmaB = Sigma;
    SigmaB.prodScalar(1.5);
    SigmaB.addScalarDiag(0.7);
    MatrixRectangular Sigma0B = Sigma0;
    Sigma0B.prodScalar(0.5);
    MatrixSquareSymmetric Sigma00B = Sigma00;
    Sigma00B.addScalarDiag(1.);
    VectorDouble means2 = {3.};
    auto collect = [&](KrigingCalcul& K) {
      d.vd(K.getEstimation());
      d.vd(K.getStdv());
      d.vd(K.getVarianceZstar());
      if (withDrift) d.vd(K.getPostMean());
      const MatrixRectangular* L = K.getLambda();
      if (L) digestMatrix(d, *L);
      if (withDrift) { const MatrixRectangular* Mu = K.getMu(); if (Mu) digestMatrix(d, *Mu); }
    };
    const MatrixRectangular* Xp = withDrift ? &X : nullptr;
    const MatrixRectangular* X0p = withDrift ? &X0 : nullptr;
    const VectorDouble* mp = withDrift ? nullptr : &means;
    KrigingCalcul K(false);
    if (route == 0)
    {
      K.setLHS(&Sigma, Xp);
      K.setRHS(&Sigma0, X0p);
      K.setVar(&Sigma00);
      K.setData(&Z, mp);
    }
    else
    {
      Rng rr((uint64_t)route * 7919 + 13);
      // start from alternates
      K.setLHS(&SigmaB, Xp);
      K.setRHS(&Sigma0B, X0p);
      K.setVar(&Sigma00B);
      K.setData(&Z2, withDrift ? nullptr : &means2);
      int nsteps = 3 + (int)rr.below(8);
      for (int sstep = 0; sstep < nsteps; sstep++)
      {
        long what = rr.below(9);
        if (c) c->fp("k" + std::to_string(what));
        switch (what)
        {
          case 0: K.setData(rr.chance(0.5) ? &Z : &Z2, mp); break;
          case 1: K.setLHS(rr.chance(0.5) ? &Sigma : &SigmaB, Xp); break;
          case 2: K.setRHS(rr.chance(0.5) ? &Sigma0 : &Sigma0B, X0p); break;
          case 3: K.setVar(rr.chance(0.5) ? &Sigma00 : &Sigma00B); break;
          case 4: (void)K.getEstimation(); break;
          case 5: (void)K.getStdv(); break;
          case 6: (void)K.getVarianceZstar(); if (withDrift) (void)K.getPostMean(); break;
          case 7: (void)K.getLambda(); break;
          default: if (withDrift) (void)K.getMu(); else (void)K.getLambda0(); break;
        }
      }
      // final inputs, given in a seeded order
      int order[4] = {0, 1, 2, 3};
      for (int i = 3; i > 0; i--) std::swap(order[i], order[rr.below(i + 1)]);
      for (int q = 0; q < 4; q++)
      {
        if (c) c->fp("final" + std::to_string(order[q]));
        if (order[q] == 0) K.setLHS(&Sigma, Xp);
        else if (order[q] == 1) K.setRHS(&Sigma0, X0p);
        else if (order[q] == 2) K.setVar(&Sigma00);
        else K.setData(&Z, mp);
        // getters between the updates: each lazily cached matrix is computed on a half-updated object
        if (rr.chance(0.5))
        {
          long g = rr.below(5);
          if (c) c->fp("get" + std::to_string(g));
          switch (g)
          {
            case 0: (void)K.getEstimation(); break;
            case 1: (void)K.getStdv(); break;
            case 2: if (withDrift) (void)K.getPostMean(); else (void)K.getLambda0(); break;
            case 3: (void)K.getVarianceZstar(); break;
            default: (void)K.getLambda(); break;
          }
        }
      }
      if (c) c->count("fault.incremental-updates");
    }
    collect(K);
    o.digest = d.hex();
    return o;
  }
  if (k == "kriging")
  {
    int nc = W.dbout->getColumnNumber();
    o.ret = kriging(W.dbin, W.dbout, W.model, W.neigh, EKrigOpt::POINT, true, true, (a % 3 == 0) && W.spec.nfex == 0);
    o.digest = std::to_string(o.ret) + newColumnsDigest(W.dbout, nc);
    return o;
  }
  if (k == "xvalid")
  {
    int nc = W.dbin->getColumnNumber();
    o.ret = xvalid(W.dbin, W.model, W.neigh, false, a % 2 ? 1 : -1, b % 2 ? 1 : -1, 0);
    o.digest = std::to_string(o.ret) + newColumnsDigest(W.dbin, nc);
    return o;
  }
  if (k == "vario" || k == "vario-fit")
  {
    VarioParam* vp = VarioParam::createOmniDirection(4 + a % 5, 0.8 + 0.1 * (b % 4));
    Vario* v = Vario::computeFromDb(*vp, W.dbin, ECalcVario::VARIOGRAM);
    if (v)
    {
      for (int iv = 0; iv < W.spec.nvar; iv++)
        for (int jv = 0; jv <= iv; jv++)
        {
          d.vd(v->getGgVec(0, iv, jv));
          d.vd(v->getHhVec(0, iv, jv));
          d.vd(v->getSwVec(0, iv, jv));
        }
      if (k == "vario-fit" && W.spec.nvar == 1)
      {
        Model* fm = Model::createFromDb(W.dbin);
        if (fm)
        {
          int e = fm->fit(v, ECov::fromKeys({"SPHERICAL", "NUGGET"}));
          d.i(e);
          d.s(serialHash(fm));
          delete fm;
        }
      }
      delete v;
    }
    else d.s("null-vario");
    delete vp;
    o.digest = d.hex();
    return o;
  }
  if (k == "vario-gen" || k == "vario-dirs")
  {
    // self-contained: a small 2-D grid filled by a fixed recurrence (no library generator involved)
    //  vario-gen : generalized variogram of order 1..3 along several grid directions
    //  vario-dirs: ordinary calculations (variogram, covariance, madogram ...) in several directions of the plane
    int nd0 = getDefaultSpaceDimension();
    defineDefaultSpace(ESpaceType::RN, 2);
    DbGrid* g = DbGrid::create({7 + (int)(a % 4), 6 + (int)(b % 3)});
    VectorDouble z(g->getSampleNumber());
    uint64_t s = (uint64_t)seed * 2654435761u + 17;
    for (auto& v : z) { s = s * 6364136223846793005ULL + 1442695040888963407ULL; v = (double)((s >> 33) % 2000) / 100. - 10.; }
    g->addColumns(z, "zg", ELoc::Z);
    VarioParam vp;
    ECalcVario calc = ECalcVario::VARIOGRAM;
    if (k == "vario-gen")
    {
      static const int INC[4][2] = {{1, 0}, {0, 1}, {1, 1}, {2, 1}};
      int ndir = 1 + (int)(a % 4);
      for (int id = 0; id < ndir; id++)
      {
        DirParam* dp = DirParam::createFromGrid(g, 3 + (int)(b % 2), {INC[(id + b) % 4][0], INC[(id + b) % 4][1]});
        vp.addDir(*dp);
        delete dp;
      }
      calc = (b % 3 == 0) ? ECalcVario::GENERAL1 : (b % 3 == 1 ? ECalcVario::GENERAL2 : ECalcVario::GENERAL3);
    }
    else
    {
      VarioParam* q = VarioParam::createMultiple(2 + (int)(a % 3), 4, 1.);
      vp = *q;
      delete q;
      static const int CK[] = {0, 1, 9, 2, 3, 4}; // variogram, covariance, non-centred covariance, covariogram, madogram, rodogram
      calc = ECalcVario::fromValue(CK[b % 6]);
    }
    Vario* v = Vario::computeFromDb(vp, g, calc);
    if (v)
    {
      d.i(v->getDirectionNumber());
      for (int id = 0; id < v->getDirectionNumber(); id++)
      {
        d.vd(v->getAllGg(id));
        d.vd(v->getAllHh(id));
        d.vd(v->getAllSw(id));
      }
      // oracle that needs no sibling: a direction computed alone equals the same direction computed in the batch
      for (int id = 0; id < v->getDirectionNumber(); id++)
      {
        VarioParam one;
        one.addDir(vp.getDirParam(id));
        Vario* w = Vario::computeFromDb(one, g, calc);
        if (!w) { d.s("null-single"); continue; }
        bool same = true;
        VectorDouble g1 = v->getAllGg(id), g2 = w->getAllGg(0), s1 = v->getAllSw(id), s2 = w->getAllSw(0), h1 = v->getAllHh(id), h2 = w->getAllHh(0);
        if (g1.size() != g2.size() || s1.size() != s2.size() || h1.size() != h2.size()) same = false;
        for (size_t q = 0; same && q < g1.size(); q++) same = sameBits(g1[q], g2[q]) && sameBits(s1[q], s2[q]) && sameBits(h1[q], h2[q]);
        if (!same && c) c->violation("C10|direction-depends-on-batch|" + k, "direction " + std::to_string(id) + " of a " + std::to_string(v->getDirectionNumber()) +
                                     "-direction calculation (" + std::string(calc.getKey()) + ") differs from the same direction computed alone");
        delete w;
      }
      delete v;
    }
    else d.s("null-vario");
    delete g;
    defineDefaultSpace(ESpaceType::RN, nd0);
    o.digest = d.hex();
    return o;
  }
  if (k == "grid-exchange")
  {
    // a small grid written and read back through an exchange format whose reader tokenises with the process-wide
    // delimiters of _record_read (IfpEn, or Zycor which sets and restores its own)
    int nd0 = getDefaultSpaceDimension();
    defineDefaultSpace(ESpaceType::RN, 2);
    DbGrid* g = DbGrid::create({3 + (int)(a % 3), 2 + (int)(b % 3)}, {1., 2.}, {5., -3.});
    VectorDouble z(g->getSampleNumber());
    uint64_t s = (uint64_t)seed * 2654435761u + 29;
    for (auto& v : z) { s = s * 6364136223846793005ULL + 1442695040888963407ULL; v = (double)((s >> 33) % 2000) / 100. - 10.; }
    g->addColumns(z, "zg", ELoc::Z);
    std::string path = "/dev/shm/simkit-world." + std::to_string((long)getpid()) + ".dat";
    int icol = g->getColumnNumber() - 1;
    DbGrid* back = nullptr;
    if (a % 3 == 2)
    {
      // F2G has a reader only: a valid file written after its grammar (blank-separated tokens)
      FILE* f = fopen(path.c_str(), "w");
      if (f)
      {
        fprintf(f, "F2G_DIM 2\nF2G_VERSION 1\nF2G_LOCATION 5. -3. 0.\nF2G_ROTATION 0.\nF2G_ORIGIN 0. 0.\nF2G_NB_NODES %d %d\nF2G_LAGS 1. 2.\n", g->getNX(0), g->getNX(1));
        fprintf(f, "F2G_ORDER +Y +X +Z\nF2G_NB_VARIABLES 1\nF2G_VARIABLE_1 zg\nF2G_UNDEFINED_1 -999\nF2G_VALUES\n");
        for (size_t i = 0; i < z.size(); i++) fprintf(f, "%.2f%s", z[i], (i % 5 == 4) ? "\n" : " ");
        fprintf(f, "\n");
        fclose(f);
      }
      back = db_grid_read_f2g(path.c_str(), 0);
    }
    else if (a % 3 == 0)
    {
      int ic[1] = {icol};
      d.i(db_grid_write_ifpen(path.c_str(), g, 1, ic));
      back = db_grid_read_ifpen(path.c_str(), 0);
    }
    else
    {
      d.i(db_grid_write_zycor(path.c_str(), g, icol));
      back = db_grid_read_zycor(path.c_str(), 0);
    }
    d.s(back ? dbDigest(back) : "null-grid");
    if (getenv("SIMKIT_DEBUG_SIM")) fprintf(stderr, "grid-exchange a=%ld back=%s\n", a, back ? "grid" : "null");
    unlink(path.c_str());
    delete back;
    delete g;
    defineDefaultSpace(ESpaceType::RN, nd0);
    o.digest = d.hex();
    return o;
  }
  if (k == "migrate")
  {
    int nc = W.dbout->getColumnNumber();
    o.ret = migrate(W.dbin, W.dbout, "za", 1, VectorDouble(), a % 2, b % 2, false);
    o.digest = std::to_string(o.ret) + newColumnsDigest(W.dbout, nc);
    return o;
  }
  if (k == "frombox")
  {
    Db* db = Db::createFromBox(5 + a % 20, VectorDouble(W.spec.ndim, 0.), VectorDouble(W.spec.ndim, 10.), seed);
    o.digest = dbDigest(db);
    delete db;
    return o;
  }
  if (k == "addrandom")
  {
    int nc = W.dbin->getColumnNumber();
    W.dbin->addColumnsRandom(1 + a % 2, "rnd", ELoc::UNKNOWN, 0, seed);
    o.digest = newColumnsDigest(W.dbin, nc);
    return o;
  }
  if (k == "simgauss")
  {
    law_set_random_seed(seed);
    VectorDouble v = VH::simulateGaussian(5 + a % 30, 1., 2.);
    d.vd(v);
    o.digest = d.hex();
    return o;
  }
  if (k == "simtub" || k == "simtub-nc")
  {
    int nbsimu = 1 + a % 3, nbtuba = 5 + b % 60;
    int nc = W.dbout->getColumnNumber();
    if (k == "simtub-nc") o.ret = simtub(nullptr, W.dbout, W.model, nullptr, nbsimu, seed, nbtuba);
    else o.ret = simtub(W.dbin, W.dbout, W.model, W.neigh, nbsimu, seed, nbtuba);
    o.digest = std::to_string(o.ret) + newColumnsDigest(W.dbout, nc);
    o.freeDefined = freeDefinedValues(W, nc);
    if (getenv("SIMKIT_DEBUG_SIM") && W.dbin && k == "simtub")
      for (int ie = 0; ie < W.dbin->getSampleNumber(); ie++)
        fprintf(stderr, "datum %d active=%d x=%.9g z=%.9g\n", ie, (int)W.dbin->isActive(ie), W.dbin->getCoordinate(ie, 0), W.dbin->getZVariable(ie, 0));
    if (getenv("SIMKIT_DEBUG_SIM"))
      for (int it = 0; it < W.dbout->getSampleNumber(); it++)
      {
        // debugging aid for replays
        fprintf(stderr, "sim seed=%d target %d active=%d :", seed, it, (int)W.dbout->isActive(it));
        for (int ic = nc; ic < W.dbout->getColumnNumber(); ic++) fprintf(stderr, " %.6g", W.dbout->getValueByColIdx(it, ic));
        fprintf(stderr, "\n");
      }
    if (judge13 && c && o.ret == 0)
    {
      // simulation ranks differ
      int nnew = W.dbout->getColumnNumber() - nc;
      if (nbsimu > 1 && nnew >= 2 && freeTargets(W) >= 2)
      {
        VectorDouble s0 = W.dbout->getColumnByColIdx(nc, false, false), s1 = W.dbout->getColumnByColIdx(nc + 1, false, false);
        bool same = true;
        for (size_t i = 0; i < s0.size(); i++) if (!sameBits(s0[i], s1[i]) && !(isUndef(s0[i]) && isUndef(s1[i]))) same = false;
        bool anyDefined = false;
        for (double x : s0) if (!isUndef(x)) anyDefined = true;
        // only values at free targets can differ between ranks (targets on data reproduce them, refused systems give TEST)
        if (same && anyDefined && o.freeDefined >= 2 && W.spec.nvar == 1) c->violation("C13|ranks-identical|" + k, "simulations 1 and 2 of one call are identical");
        else c->count("probe.ranks-differ");
      }
      // conditioning: a target coinciding with a datum reproduces it
      if (k == "simtub" && W.spec.onNodes && W.spec.undefIn == 0)
      {
        DbGrid* g = dynamic_cast<DbGrid*>(W.dbout);
        int checked = 0;
        for (int ie = 0; ie < W.dbin->getSampleNumber(); ie++)
        {
          if (!W.dbin->isActive(ie)) continue;
          VectorDouble xy = W.dbin->getSampleCoordinates(ie);
          int node = -1;
          if (g) node = g->coordinateToRank(xy, false, 1e-9);
          else if (ie < 4 && ie < W.dbout->getSampleNumber()) node = ie; // point target: data i sits on target point i
          if (node < 0 || !W.dbout->isActive(node)) continue;
          VectorDouble cn = W.dbout->getSampleCoordinates(node);
          bool on = true;
          for (int dd = 0; dd < W.spec.ndim; dd++) if (std::fabs(cn[dd] - xy[dd]) > 1e-12) on = false;
          if (!on) continue;
          for (int iv = 0; iv < W.spec.nvar; iv++)
          {
            double z = W.dbin->getZVariable(ie, iv);
            if (isUndef(z)) continue;
            for (int is = 0; is < nbsimu; is++)
            {
              double s = W.dbout->getValueByColIdx(node, nc + iv * nbsimu + is);
              checked++;
              if (isUndef(s) || std::fabs(s - z) > 1e-8 * (1 + std::fabs(z)))
              {
                char bb[200];
                snprintf(bb, sizeof bb, "datum %d var %d simu %d: data %.12g simulated %.12g", ie, iv, is, z, s);
                c->violation("C13|conditioning-not-exact|simtub", bb);
                return o;
              }
            }
          }
        }
        if (checked) c->count("probe.conditioning-checked", checked);
      }
    }
    return o;
  }
  if (k == "simbayes" || k == "kribayes")
  {
    // Bayesian estimation / simulation: prior on the coefficient of the universality condition
    int nc = W.dbout->getColumnNumber();
    Model* mb = W.model->clone();
    mb->setDriftIRF(0, 0);
    MatrixSquareSymmetric pc(1);
    pc.setValue(0, 0, 1. + (double)(b % 3));
    VectorDouble pm = {8. + (double)(a % 5)};
    if (k == "simbayes") o.ret = simbayes(W.dbin, W.dbout, mb, W.neigh, 1 + a % 2, seed, pm, pc, 10 + b % 40);
    else o.ret = kribayes(W.dbin, W.dbout, mb, W.neigh, pm, pc, true, true);
    o.digest = std::to_string(o.ret) + newColumnsDigest(W.dbout, nc);
    o.freeDefined = freeDefinedValues(W, nc);
    delete mb;
    return o;
  }
  if (k == "simfft")
  {
    SimuFFTParam param;
    int nc = W.dbout->getColumnNumber();
    DbGrid* g = dynamic_cast<DbGrid*>(W.dbout);
    o.ret = simfft(g, W.model, param, 1 + a % 2, seed);
    o.digest = std::to_string(o.ret) + newColumnsDigest(W.dbout, nc);
    o.freeDefined = freeDefinedValues(W, nc);
    return o;
  }
  if (k == "simpgs")
  {
    // plurigaussian simulation: rule on one or two underlying Gaussian functions, constant proportions;
    // conditional when data (facies codes) sit on target nodes
    static const std::vector<VectorString> rules = {{"S", "T", "F1", "F2", "F3"}, {"S", "F1", "F2"}, {"T", "F1", "F2"}, {"S", "S", "F1", "F2", "F3"}};
    const VectorString& rn = rules[(size_t)(a % 4)];
    int nfac = (int)rn.size() / 2 + 1;
    // correlated underlying Gaussian functions for a third of the recipes (second function drawn given the first)
    static const double RHO[] = {0., 0., 0.5, 0., -0.7, 0.};
    Rule* rule = Rule::createFromNames(rn, RHO[(size_t)((a / 4) % 6)]);
    VectorDouble props(nfac, 1. / nfac);
    RuleProp* rp = RuleProp::createFromRule(rule, props);
    Model* m1 = Model::createFromParam(ECov::EXPONENTIAL, W.spec.range, 1.);
    Model* m2 = Model::createFromParam(ECov::SPHERICAL, W.spec.range * 1.3, 1.);
    bool cond = (b % 2 == 0) && W.spec.onNodes && W.spec.outKind == 0;
    Db* din = nullptr;
    VectorDouble fac;
    if (cond)
    {
      // data base of facies codes on the first data (which sit on grid nodes)
      // every conditioning datum carries a facies: the data base holds the first data only (those on nodes)
      Rng rf((uint64_t)op.I(3, 7) * 31 + 5);
      int nd = std::min(4, W.dbin->getSampleNumber());
      VectorDouble tab;
      VectorString nms, lcs;
      for (int dd = 0; dd < W.spec.ndim; dd++) { nms.push_back(std::string("x") + char('a' + dd)); lcs.push_back("x" + std::to_string(dd + 1)); }
      nms.push_back("facies");
      lcs.push_back("z1");
      fac = VectorDouble(nd, TEST);
      for (int i = 0; i < nd; i++)
      {
        for (int dd = 0; dd < W.spec.ndim; dd++) tab.push_back(W.dbin->getCoordinate(i, dd));
        fac[i] = 1 + (double)rf.below(nfac);
        tab.push_back(fac[i]);
      }
      din = Db::createFromSamples(nd, ELoadBy::SAMPLE, tab, nms, lcs, true);
    }
    int nbsimu = 1 + (int)(op.I(3, 0) % 2);
    int nc = W.dbout->getColumnNumber();
    NeighUnique* nu = NeighUnique::create();
    o.ret = simpgs(din, W.dbout, rp, m1, m2, nu, nbsimu, seed, getenv("SIMKIT_DEBUG_PGS_GAUS") != nullptr, false, false, false, 20 + b % 30, 5, 20 + a % 20);
    o.digest = std::to_string(o.ret) + newColumnsDigest(W.dbout, nc);
    o.freeDefined = freeDefinedValues(W, nc);
    if (getenv("SIMKIT_DEBUG_SIM") && din)
    {
      // debugging aid for replays
      for (int ic = 0; ic < din->getColumnNumber(); ic++)
      {
        ELoc t; int rk;
        din->getLocatorByColIdx(ic, &t, &rk);
        fprintf(stderr, "din col %d %s %s%d:", ic, din->getNameByColIdx(ic).c_str(), std::string(t.getKey()).c_str(), rk);
        for (int i = 0; i < din->getSampleNumber(); i++) fprintf(stderr, " %.5g", din->getValueByColIdx(i, ic));
        fprintf(stderr, "\n");
      }
      DbGrid* gg = dynamic_cast<DbGrid*>(W.dbout);
      fprintf(stderr, "simpgs seed=%d nbsimu=%d ret=%d a=%ld b=%ld rho=%g nfac=%d\n", seed, nbsimu, o.ret, a, b, rule->getRho(), nfac);
      for (int it = 0; it < W.dbout->getSampleNumber(); it++)
      {
        fprintf(stderr, "node %d active=%d :", it, (int)W.dbout->isActive(it));
        for (int ic = nc; ic < W.dbout->getColumnNumber(); ic++) fprintf(stderr, " %.5g", W.dbout->getValueByColIdx(it, ic));
        fprintf(stderr, "\n");
      }
      for (int i = 0; gg && i < din->getSampleNumber(); i++)
      {
        int node = gg->coordinateToRank(din->getSampleCoordinates(i), false, 1e-9);
        fprintf(stderr, "datum %d node %d :", i, node);
        for (int ic = nc; node >= 0 && ic < W.dbout->getColumnNumber(); ic++) fprintf(stderr, " %s=%.5g", W.dbout->getNameByColIdx(ic).c_str(), W.dbout->getValueByColIdx(node, ic));
        fprintf(stderr, "\n");
      }
    }
    if (judge13 && c && o.ret == 0 && cond)
    {
      DbGrid* g = dynamic_cast<DbGrid*>(W.dbout);
      int checked = 0;
      for (int i = 0; g && i < din->getSampleNumber() && i < 4; i++)
      {
        if (!din->isActive(i) || isUndef(fac[i])) continue;
        VectorDouble xy = din->getSampleCoordinates(i);
        int node = g->coordinateToRank(xy, false, 1e-9);
        if (node < 0 || !g->isActive(node)) continue;
        VectorDouble cn = g->getSampleCoordinates(node);
        bool on = true;
        for (int dd = 0; dd < W.spec.ndim; dd++) if (std::fabs(cn[dd] - xy[dd]) > 1e-12) on = false;
        if (!on) continue;
        for (int ic = nc; ic < W.dbout->getColumnNumber(); ic++)
        {
          double f = W.dbout->getValueByColIdx(node, ic);
          checked++;
          if (isUndef(f) || f != fac[i])
          {
            char bb[200];
            snprintf(bb, sizeof bb, "datum %d observed facies %g simulated %g (column %s)", i, fac[i], f, W.dbout->getNameByColIdx(ic).c_str());
            // the correlated case is a different mechanism (the Gibbs sampler draws the decorrelated second function,
            // the conversion to facies thresholds the simulated one): kept apart so that one does not hide the other
            c->violation(std::string("C13|facies-at-data-differs|simpgs") + (rule->getRho() != 0. ? "|correlated-functions" : ""), bb);
            ic = W.dbout->getColumnNumber();
            i = 1000;
          }
        }
      }
      if (checked) c->count("probe.facies-at-data-checked", checked);
    }
    if (c && !cond) c->count("probe.simpgs-nonconditional");
    delete nu;
    delete din;
    delete rp;
    delete rule;
    delete m1;
    delete m2;
    return o;
  }
  if (k == "simbipgs")
  {
    // non-conditional bi-plurigaussian simulation: two rules, the facies is the product of both
    static const std::vector<VectorString> R1 = {{"S", "S", "F1", "F2", "F3"}, {"S", "T", "F1", "F2", "F3"}, {"S", "F1", "F2"}};
    const VectorString& r1 = R1[(size_t)(a % 3)];
    VectorString r2 = {"S", "F1", "F2"};
    int nf1 = (int)r1.size() / 2 + 1, nf2 = 2;
    Rule* rule1 = Rule::createFromNames(r1);
    Rule* rule2 = Rule::createFromNames(r2);
    VectorDouble props(nf1 * nf2, 1. / (nf1 * nf2));
    RuleProp* rp = RuleProp::createFromRules(rule1, rule2, props);
    Model* m11 = Model::createFromParam(ECov::EXPONENTIAL, W.spec.range, 1.);
    Model* m12 = Model::createFromParam(ECov::SPHERICAL, W.spec.range * 1.3, 1.);
    Model* m21 = Model::createFromParam(ECov::EXPONENTIAL, W.spec.range * 0.7, 1.);
    Model* m22 = Model::createFromParam(ECov::SPHERICAL, W.spec.range * 0.9, 1.);
    int nbsimu = 1 + (int)(op.I(3, 0) % 2);
    int nc = W.dbout->getColumnNumber();
    NeighUnique* nu = NeighUnique::create();
    o.ret = simbipgs(nullptr, W.dbout, rp, m11, m12, m21, m22, nu, nbsimu, seed, false, false, false, false, 20 + b % 30);
    o.digest = std::to_string(o.ret) + newColumnsDigest(W.dbout, nc);
    o.freeDefined = freeDefinedValues(W, nc);
    delete nu;
    delete rp;
    delete rule1;
    delete rule2;
    delete m11;
    delete m12;
    delete m21;
    delete m22;
    return o;
  }
  if (k == "gibbs")
  {
    // inequality-constrained Gaussian values on the data base: bounds in L/U roles
    Db* db = W.dbin;
    int n = db->getSampleNumber();
    Rng r((uint64_t)op.I(3, 5) * 7777 + 3);
    VectorDouble lo(n), up(n);
    for (int i = 0; i < n; i++)
    {
      double c0 = r.gauss();
      double w = 0.05 + r.unit() * 1.5;
      lo[i] = r.chance(0.15) ? TEST : c0 - w;
      up[i] = r.chance(0.15) ? TEST : c0 + w;
    }
    db->clearLocators(ELoc::Z);
    db->addColumns(lo, "lower", ELoc::L, 0);
    db->addColumns(up, "upper", ELoc::U, 0);
    Model* gm = Model::createFromParam(ECov::EXPONENTIAL, W.spec.range, 1.);
    int nc = db->getColumnNumber();
    int nbsimu = 1 + a % 2;
    o.ret = gibbs_sampler(db, gm, nbsimu, seed, 5 + b % 10, 10 + b % 30, false, true, false, false, false, 0, 5., false, false, false);
    o.digest = std::to_string(o.ret) + newColumnsDigest(db, nc);
    if (getenv("SIMKIT_DEBUG_GIBBS"))
      for (int i = 0; i < n; i++)
      {
        // debugging aid for replays
        fprintf(stderr, "gibbs sample %d active=%d x=%g lo=%g up=%g ->", i, (int)db->isActive(i), db->getCoordinate(i, 0), lo[i], up[i]);
        for (int ic = nc; ic < db->getColumnNumber(); ic++) fprintf(stderr, " %g", db->getValueByColIdx(i, ic));
        fprintf(stderr, "\n");
      }
    if (judge13 && c && o.ret == 0)
    {
      int checked = 0;
      for (int ic = nc; ic < db->getColumnNumber(); ic++)
      {
        VectorDouble v = db->getColumnByColIdx(ic, false, false);
        for (int i = 0; i < n; i++)
        {
          if (!db->isActive(i) || isUndef(v[i])) continue;
          checked++;
          if ((!isUndef(lo[i]) && v[i] < lo[i]) || (!isUndef(up[i]) && v[i] > up[i]))
          {
            char bb[200];
            snprintf(bb, sizeof bb, "sample %d value %.12g outside [%.12g, %.12g]", i, v[i], lo[i], up[i]);
            c->violation("C13|gibbs-outside-bounds", bb);
            delete gm;
            return o;
          }
        }
      }
      if (checked) c->count("probe.gibbs-bounds-checked", checked);
    }
    delete gm;
    return o;
  }
  o.digest = "unknown-observed-call";
  return o;
}

// active targets that do not coincide with an active datum (those are free to vary with the seed)
int freeTargets(const World& W)
{
  if (!W.dbout) return 0;
  int n = 0;
  for (int it = 0; it < W.dbout->getSampleNumber(); it++)
  {
    if (!W.dbout->isActive(it)) continue;
    VectorDouble ct = W.dbout->getSampleCoordinates(it);
    bool onDatum = false;
    for (int ie = 0; W.dbin && ie < W.dbin->getSampleNumber() && !onDatum; ie++)
    {
      if (!W.dbin->isActive(ie)) continue;
      VectorDouble cd = W.dbin->getSampleCoordinates(ie);
      bool same = true;
      for (size_t d = 0; d < ct.size() && d < cd.size(); d++) if (std::fabs(ct[d] - cd[d]) > 1e-9) same = false;
      onDatum = same;
    }
    if (!onDatum) n++;
  }
  return n;
}

// defined simulated values at the targets that are free to vary with the seed
long freeDefinedValues(const World& W, int ncolBefore)
{
  if (!W.dbout) return 0;
  long n = 0;
  for (int it = 0; it < W.dbout->getSampleNumber(); it++)
  {
    if (!W.dbout->isActive(it)) continue;
    VectorDouble ct = W.dbout->getSampleCoordinates(it);
    bool onDatum = false;
    for (int ie = 0; W.dbin && ie < W.dbin->getSampleNumber() && !onDatum; ie++)
    {
      if (!W.dbin->isActive(ie)) continue;
      VectorDouble cd = W.dbin->getSampleCoordinates(ie);
      bool same = true;
      for (size_t d = 0; d < ct.size() && d < cd.size(); d++) if (std::fabs(ct[d] - cd[d]) > 1e-9) same = false;
      onDatum = same;
    }
    if (onDatum) continue;
    for (int ic = ncolBefore; ic < W.dbout->getColumnNumber(); ic++)
      if (!isUndef(W.dbout->getValueByColIdx(it, ic))) n++;
  }
  return n;
}

bool admissibleObs(const std::string& k, const WorldSpec& w)
{
  if (k == "simfft") return w.outKind == 0 && w.nvar == 1 && w.nfex == 0 && w.ndim == 2; // 3-D FFT grids cost tens of seconds under ASan
  if (k == "simtub" || k == "simtub-nc") return w.nfex == 0;
  if (k == "vario-fit") return w.nvar == 1;
  if (k == "gibbs") return w.nvar == 1 && w.nfex == 0 && w.undefIn == 0; // with or without a selection
  if (k == "simpgs") return w.ndim == 2 && w.nfex == 0 && w.outKind == 0 && w.selIn == 0;
  if (k == "simbipgs") return w.ndim == 2 && w.nfex == 0 && w.outKind == 0;
  if (k == "simbayes" || k == "kribayes") return w.nfex == 0 && w.nvar == 1 && w.drift == 0;
  if (k == "covmat" || k == "covmat-optim" || k == "covmat-symoptim") return w.nfex == 0;
  if (k == "kcalc") return w.nvar == 1 && w.nfex == 0 && w.undefIn == 0;
  return true;
}

// ---------------------------------------------------------------- perturbations
const char* PERTS[] = {"p.covmat-masked",   "p.covmat-other",   "p.kriging-clone",  "p.kriging-baddim", "p.neigh-select",  "p.rng-draws",
                       "p.rng-style",       "p.sim-otherseed",  "p.copy-db",        "p.copy-model",     "p.copy-vector",   "p.opt-dbg",
                       "p.opt-cst",         "p.opt-sparse",     "p.space-toggle",   "p.vario-other",    "p.fft-other",     "p.loadnf-missing",
                       "p.cols-add-del",    "p.roles-set-clear", "p.sel-add-del",   "p.model-add-del",  "p.model-range",   "p.calc-injected",
                       "p.heap-churn",      "p.optim-toggle",   "p.xvalid-clone",   "p.selrandom-other", "p.container",
                       "p.copysem",         "p.copysem",        "p.exchange-refused"};
const int NPERTS = 32;

// a second, unrelated small world
void otherWorld(World& O, long salt, int ndim)
{
  Op op;
  for (int a = 0; a < 16; a++) op.i.push_back((salt * 31 + a * 17) % 997);
  WorldSpec s = specFromOp(op);
  s.ndim = ndim;
  s.nfex = 0;
  s.nvar = 1;
  buildWorld(O, s);
}

void perturb(World& W, const Op& op, Ctx& c)
{
  const std::string& k = op.kind;
  long a = op.I(0), b = op.I(1);
  if (k == "p.covmat-masked")
  {
    // a failing request on the SAME model: no valid sample
    Db* m = W.dbin->clone();
    VectorDouble s(m->getSampleNumber(), 0.);
    m->addSelection(s, "maskall");
    if (a % 3 == 0) { MatrixRectangular r = W.model->evalCovMatrixOptim(m, nullptr); (void)r; }
    else if (a % 3 == 1) { MatrixSquareSymmetric r = W.model->evalCovMatrixSymmetricOptim(m); (void)r; }
    else { MatrixRectangular r = W.model->evalCovMatrix(m, nullptr); (void)r; }
    delete m;
    c.count("fault.failed-request-same-model");
  }
  else if (k == "p.covmat-other")
  {
    World O;
    otherWorld(O, a, W.spec.ndim);
    if (b % 2) { MatrixRectangular r = W.model->evalCovMatrixOptim(O.dbin, O.dbout); (void)r; }
    else { MatrixRectangular r = W.model->evalCovMatrix(O.dbin, nullptr); (void)r; }
  }
  else if (k == "p.kriging-clone" || k == "p.xvalid-clone")
  {
    // successful request with the same Model / Neigh on copies of the data bases
    Db* i2 = W.dbin->clone();
    Db* o2 = W.dbout->clone();
    if (k == "p.kriging-clone") (void)kriging(i2, o2, W.model, W.neigh, EKrigOpt::POINT, true, true, false);
    else (void)xvalid(i2, W.model, W.neigh, false, 1, 1, 0);
    delete i2;
    delete o2;
  }
  else if (k == "p.kriging-baddim")
  {
    int nd = W.spec.ndim == 2 ? 3 : 2;
    DbGrid* g = DbGrid::create(VectorInt(nd, 3), VectorDouble(nd, 1.), VectorDouble(nd, 0.));
    Db* i2 = W.dbin->clone();
    (void)kriging(i2, g, W.model, W.neigh);
    delete g;
    delete i2;
    c.count("fault.failed-request-bad-dimension");
  }
  else if (k == "p.neigh-select")
  {
    World O;
    otherWorld(O, a, W.spec.ndim);
    W.neigh->attach(O.dbin, O.dbout);
    VectorInt ranks;
    for (int t = 0; t < 3 && t < O.dbout->getSampleNumber(); t++) W.neigh->select((int)((a + t) % O.dbout->getSampleNumber()), ranks);
    W.neigh->reset();
  }
  else if (k == "p.rng-draws")
  {
    int n = 1 + (int)(a % 60);
    for (int i = 0; i < n; i++) (void)law_uniform();
    if (b % 2) (void)law_gaussian();
    c.count("fault.generator-consumed");
  }
  else if (k == "p.rng-style")
  {
    law_set_old_style(false); // the documented default is the old style: restore it
    (void)law_uniform();
    law_set_random_seed(5 + (int)(a % 1000));
    law_set_old_style(true);
  }
  else if (k == "p.sim-otherseed")
  {
    DbGrid* g = DbGrid::create(VectorInt(W.spec.ndim, 4));
    Model* m = buildModel(W.spec, 1);
    (void)simtub(nullptr, g, m, nullptr, 1 + (int)(a % 2), 7 + (int)(b % 1000), 10);
    delete g;
    delete m;
  }
  else if (k == "p.copy-db")
  {
    // copy-then-mutate the copy
    Db* cp = (a % 2) ? W.dbin->clone() : new Db(*W.dbin);
    cp->setValueByColIdx(0, cp->getColumnNumber() - 1, 12345.);
    cp->addColumnsByConstant(1, 3.);
    cp->deleteColumnByColIdx(0);
    if (cp->getSampleNumber() > 2) cp->deleteSample(1);
    cp->clearLocators(ELoc::Z);
    delete cp;
    Db* co = W.dbout->clone();
    co->addColumnsByConstant(2, 1.);
    co->setValueByColIdx(0, 0, -1.);
    delete co;
    c.count("fault.copy-mutated");
  }
  else if (k == "p.copy-model")
  {
    Model* cp = W.model->clone();
    cp->addCovFromParam(ECov::NUGGET, 0., 0.7);
    if (cp->getCovaNumber() > 0) cp->setSill(0, 0, 0, 9.);
    cp->setMean(3.3, 0);
    // the optimisation cache of the copy must be its own
    { MatrixRectangular r = cp->evalCovMatrixOptim(W.dbin, nullptr); (void)r; }
    delete cp;
    ANeigh* nc = nullptr;
    if (auto* nm = dynamic_cast<NeighMoving*>(W.neigh)) nc = new NeighMoving(*nm);
    else if (auto* nu = dynamic_cast<NeighUnique*>(W.neigh)) nc = new NeighUnique(*nu);
    if (nc) { nc->attach(W.dbin, W.dbout); VectorInt rk; nc->select(0, rk); delete nc; }
    c.count("fault.copy-mutated");
  }
  else if (k == "p.copy-vector")
  {
    // copy-on-write vectors: mutate copies through every accessor family
    VectorDouble v = W.dbin->getColumnByColIdx(0, false, false);
    VectorDouble orig(v.begin(), v.end());
    VectorDouble c1 = v;
    if (!c1.empty()) { c1[0] = 99.; *c1.data() = 98.; *c1.begin() = 97.; }
    VectorDouble c2(v);
    c2.push_back(1.);
    c2.resize(2);
    VectorDouble c3 = v;
    c3.fill(5.);
    VectorDouble c4 = v;
    VectorDouble tmp(3, 1.);
    c4.swap(tmp);
    bool same = v.size() == orig.size();
    for (size_t i = 0; same && i < v.size(); i++) same = sameBits(v[i], orig[i]);
    if (!same) c.violation("C10|copy-not-independent|VectorDouble", "mutating a copy changed the source vector");
    VectorInt vi = {1, 2, 3};
    VectorInt ci = vi;
    ci[1] = 7;
    ci.push_back(4);
    if (vi[1] != 2 || vi.size() != 3) c.violation("C10|copy-not-independent|VectorInt", "mutating a copy changed the source vector");
    VectorString vs = {"a", "b"};
    VectorString cs = vs;
    cs[0] = "z";
    if (vs[0] != "a") c.violation("C10|copy-not-independent|VectorString", "mutating a copy changed the source vector");
    // and the other order: mutate the source after the copy
    VectorDouble src = orig;
    VectorDouble cpy = src;
    if (!src.empty()) src[0] = -77.;
    if (!cpy.empty() && !sameBits(cpy[0], orig[0])) c.violation("C10|copy-not-independent|VectorDouble", "mutating the source changed the copy");
    c.count("fault.copy-mutated");
  }
  else if (k == "p.opt-dbg")
  {
    OptDbg::setReference(3);
    OptDbg::setReference(0);
    OptDbg::define(EDbg::CONVERGE);
    OptDbg::undefine(EDbg::CONVERGE);
  }
  else if (k == "p.opt-cst")
  {
    double v = OptCst::query(ECst::NTCOL);
    OptCst::define(ECst::NTCOL, v + 3);
    OptCst::define(ECst::NTCOL, v);
    OptCustom::define("simkitknob", 2.);
    OptCustom::undefine("simkitknob");
  }
  else if (k == "p.opt-sparse")
  {
    bool f = isGlobalFlagEigen();
    setGlobalFlagEigen(!f);
    { MatrixSparse ms(3, 3); ms.setValue(0, 0, 1.); }
    setGlobalFlagEigen(f);
  }
  else if (k == "p.space-toggle")
  {
    int nd = getDefaultSpaceDimension();
    defineDefaultSpace(ESpaceType::RN, nd == 3 ? 2 : 3);
    { Model* m = Model::createFromParam(ECov::SPHERICAL, 2., 1.); delete m; }
    defineDefaultSpace(ESpaceType::RN, nd);
  }
  else if (k == "p.vario-other")
  {
    World O;
    otherWorld(O, a, W.spec.ndim);
    // several directions (the calculation leaves its working direction behind) when the space allows it
    VarioParam* vp = (W.spec.ndim == 2 && a % 2) ? VarioParam::createMultiple(2 + (int)(b % 3), 5, 1.) : VarioParam::createOmniDirection(5, 1.);
    Vario* v = Vario::computeFromDb(*vp, O.dbin, ECalcVario::VARIOGRAM);
    delete v;
    delete vp;
  }
  else if (k == "p.fft-other")
  {
    DbGrid* g = DbGrid::create(VectorInt(2, 6));
    int nd = getDefaultSpaceDimension();
    defineDefaultSpace(ESpaceType::RN, 2);
    Model* m = Model::createFromParam(ECov::SPHERICAL, 2., 1.);
    SimuFFTParam p;
    (void)simfft(g, m, p, 1, 33 + (int)(a % 100));
    delete m;
    delete g;
    defineDefaultSpace(ESpaceType::RN, nd);
  }
  else if (k == "p.loadnf-missing")
  {
    Db* x = Db::createFromNF("/nonexistent/simkit/file.nf", false);
    delete x;
    Model* m = Model::createFromNF("/nonexistent/simkit/model.nf", false);
    delete m;
    c.count("fault.failed-load");
  }
  else if (k == "p.cols-add-del")
  {
    // incremental = fresh: add and delete columns on the recipe's own data bases
    int u1 = W.dbin->addColumnsByConstant(1 + (int)(a % 2), 7., "scratch");
    W.dbin->deleteColumnsByUIDRange(u1, 1 + (int)(a % 2));
    int u2 = W.dbout->addColumnsByConstant(1, TEST, "scratch");
    W.dbout->deleteColumnByUID(u2);
    c.count("fault.incremental-undo");
  }
  else if (k == "p.roles-set-clear")
  {
    // move a role away and back
    int nz = W.dbin->getLocatorNumber(ELoc::Z);
    if (nz > 0)
    {
      VectorString zn = W.dbin->getNamesByLocator(ELoc::Z);
      W.dbin->clearLocators(ELoc::Z);
      W.dbin->setLocators(zn, ELoc::Z, 0);
    }
    c.count("fault.incremental-undo");
  }
  else if (k == "p.sel-add-del")
  {
    if (W.dbout->getLocatorNumber(ELoc::SEL) == 0)
    {
      VectorDouble s(W.dbout->getSampleNumber(), 1.);
      if (!s.empty()) s[0] = 0.;
      W.dbout->addSelection(s, "tmpsel");
      W.dbout->deleteColumn("tmpsel");
    }
    c.count("fault.incremental-undo");
  }
  else if (k == "p.model-add-del")
  {
    int n = W.model->getCovaNumber();
    W.model->addCovFromParam(ECov::NUGGET, 0., 0.3);
    if (W.model->getCovaNumber() == n + 1) W.model->delCova(n);
    c.count("fault.incremental-undo");
  }
  else if (k == "p.model-range")
  {
    if (W.model->getCovaNumber() > 0)
    {
      double r0 = W.model->getRange(0);
      W.model->setRangeIsotropic(0, r0 * 2.);
      { MatrixRectangular r = W.model->evalCovMatrixOptim(W.dbin, nullptr); (void)r; }
      W.model->setRangeIsotropic(0, r0);
    }
    c.count("fault.incremental-undo");
  }
  else if (k == "p.calc-injected")
  {
    // a calculator failed at an injected internal stage, same Model and Neigh, copies of the data bases
    Db* i2 = W.dbin->clone();
    Db* o2 = W.dbout->clone();
    g_faults.reset();
    g_faults.armed = op.f;
    gstlearn_verif_cb = simkit_fault_cb;
    (void)kriging(i2, o2, W.model, W.neigh);
    gstlearn_verif_cb = nullptr;
    if (g_faults.fired) c.count("fault." + g_faults.lastFired, g_faults.fired);
    g_faults.reset();
    delete i2;
    delete o2;
  }
  else if (k == "p.heap-churn")
  {
    std::vector<std::vector<double>*> blocks;
    for (int i = 0; i < 60; i++) blocks.push_back(new std::vector<double>(10 + (a * (i + 3)) % 500, 1.5));
    for (size_t i = 0; i < blocks.size(); i += 2) { delete blocks[i]; blocks[i] = nullptr; }
    for (auto* p : blocks) delete p;
  }
  else if (k == "p.optim-toggle")
  {
    for (int ic = 0; ic < W.model->getCovaNumber(); ic++) W.model->getCova(ic)->setOptimEnabled(false);
    { MatrixRectangular r = W.model->evalCovMatrixOptim(W.dbin, nullptr); (void)r; }
    for (int ic = 0; ic < W.model->getCovaNumber(); ic++) W.model->getCova(ic)->setOptimEnabled(true);
  }
  else if (k == "p.selrandom-other")
  {
    World O;
    otherWorld(O, a, W.spec.ndim);
    O.dbin->addSelectionRandom(0.5, 11 + (int)(b % 500));
  }
  else if (k == "p.copysem")
  {
    // copies of objects are equal to, and independent of, their source: every cloneable serialisable class
    const auto& A = adapters();
    const ClassAdapter& ad = A[(size_t)(a % (long)A.size())];
    Rng r1((uint64_t)b * 977 + 11), r2((uint64_t)b * 977 + 12);
    std::unique_ptr<ASerializable> src(ad.make(r1)), other(ad.make(r2));
    ICloneable* cl = dynamic_cast<ICloneable*>(src.get());
    if (cl != nullptr && src && other)
    {
      Desc d0, d1, d2, d3;
      ad.describe(src.get(), d0);
      std::unique_ptr<ICloneable> cpc(cl->clone());
      ASerializable* cp = dynamic_cast<ASerializable*>(cpc.get());
      if (cp == nullptr) { c.count("skipped.clone-not-serialisable"); }
      else
      {
        ad.describe(cp, d1);
        std::string df = descDiff(d0, d1, 0., 0.);
        if (!df.empty()) { c.violation("C10|copy-differs-from-source|" + ad.name, "clone() of a " + ad.name + ": " + df); return; }
        // replace the content of the copy by another object's: the source must not move
        std::ostringstream os;
        other->serialize(os, false);
        std::istringstream is(os.str());
        (void)cp->deserialize(is, false);
        ad.describe(src.get(), d2);
        df = descDiff(d0, d2, 0., 0.);
        if (!df.empty()) { c.violation("C10|copy-not-independent|" + ad.name, "overwriting a clone changed its source: " + df); return; }
        // and the other way round: a fresh clone survives the overwriting of its source
        std::unique_ptr<ICloneable> cpc2(cl->clone());
        ASerializable* cp2 = dynamic_cast<ASerializable*>(cpc2.get());
        std::istringstream is2(os.str());
        (void)src->deserialize(is2, false);
        if (cp2) { ad.describe(cp2, d3); df = descDiff(d0, d3, 0., 0.); if (!df.empty()) { c.violation("C10|copy-not-independent|" + ad.name, "overwriting the source changed its clone: " + df); return; } }
        c.count("probe.copy-semantics-checked");
      }
    }
    else c.count("skipped.class-not-cloneable");
    c.count("fault.copy-mutated");
  }
  else if (k == "p.exchange-refused")
  {
    // a grid exchange file refused half-way (cut inside its header), in each format
    DbGrid* g = DbGrid::create({3, 2});
    VectorDouble z(g->getSampleNumber(), 1.5);
    g->addColumns(z, "zq", ELoc::Z);
    std::string path = "/dev/shm/simkit-world." + std::to_string((long)getpid()) + ".cut";
    int icol = g->getColumnNumber() - 1;
    int ic[1] = {icol};
    int which = (int)(a % 3);
    if (which == 0) (void)db_grid_write_zycor(path.c_str(), g, icol);
    else if (which == 1) (void)db_grid_write_ifpen(path.c_str(), g, 1, ic);
    else (void)db_grid_write_bmp(path.c_str(), g, icol);
    {
      // keep the first bytes only
      FILE* f = fopen(path.c_str(), "rb");
      std::string bytes;
      if (f) { char buf[4096]; size_t n; while ((n = fread(buf, 1, sizeof buf, f)) > 0) bytes.append(buf, n); fclose(f); }
      size_t keep = 30 + (size_t)(b % 60);
      if (keep < bytes.size()) bytes.resize(keep);
      f = fopen(path.c_str(), "wb");
      if (f) { fwrite(bytes.data(), 1, bytes.size(), f); fclose(f); }
    }
    DbGrid* back = which == 0 ? db_grid_read_zycor(path.c_str(), 0) : (which == 1 ? db_grid_read_ifpen(path.c_str(), 0) : db_grid_read_bmp(path.c_str(), 0));
    c.count(back ? "probe.cut-exchange-file-loaded" : "fault.exchange-file-refused");
    delete back;
    unlink(path.c_str());
    delete g;
  }
  else if (k == "p.container")
  {
    ASerializable::setContainerName(false, "/tmp/simkit-nowhere/");
    ASerializable::setPrefixName("x-");
    ASerializable::unsetPrefixName();
    ASerializable::unsetContainerName();
  }
}

// perturbations that may run before the world exists (process-wide state only)
bool globalOnly(const std::string& k)
{
  return k == "p.rng-draws" || k == "p.rng-style" || k == "p.sim-otherseed" || k == "p.opt-dbg" || k == "p.opt-cst" || k == "p.opt-sparse" ||
         k == "p.vario-other.g" || k == "p.fft-other" || k == "p.loadnf-missing" || k == "p.heap-churn" || k == "p.container" || k == "p.copy-vector.g" ||
         k == "p.copysem" || k == "p.exchange-refused";
}

void execWorld(const Plan& p, Ctx& c, bool bare, const std::string& prop)
{
  childInit();
  g_cpuBudgetS = 90; // simulations on dilated 3-D grids are legitimately heavy under ASan
  World W;
  bool built = false;
  std::string rb0;
  long idx = 0;
  for (auto& op : p.ops)
  {
    if (op.kind == "world")
    {
      WorldSpec s = specFromOp(op);
      defineDefaultSpace(ESpaceType::RN, s.ndim);
      buildWorld(W, s);
      if (!bare && p.knob("route", 0) > 0 && W.model != nullptr && s.nfex == 0)
      {
        // incremental = fresh: the same final model reached by another route
        long route = p.knob("route", 0);
        Model* m2 = nullptr;
        int nc = W.model->getCovaNumber();
        if (route % 3 == 1)
        {
          // a leading nugget, filtered, then deleted
          VectorDouble sl;
          if (s.nvar == 2) sl = {0.3, 0., 0., 0.3};
          m2 = Model::createFromParam(ECov::NUGGET, 0., 0.3, 1., VectorDouble(), sl);
          for (int ic = 0; ic < nc; ic++) m2->addCov(W.model->getCova(ic));
          m2->setCovaFiltered(0, true);
          m2->delCova(0);
        }
        else if (route % 3 == 2)
        {
          // structures added then the last one changed and restored, an extra one appended, filtered and deleted
          m2 = W.model->clone();
          m2->addCovFromParam(ECov::EXPONENTIAL, 1.1, 0.2, 1., VectorDouble(), s.nvar == 2 ? VectorDouble{0.2, 0., 0., 0.2} : VectorDouble());
          m2->setCovaFiltered(nc, true);
          m2->delCova(nc);
        }
        else
        {
          // wrong range and sill first, corrected afterwards
          m2 = W.model->clone();
          double r0 = m2->getRange(0);
          double s0 = m2->getSill(0, 0, 0);
          m2->setRangeIsotropic(0, r0 * 3.);
          m2->setSill(0, 0, 0, s0 * 2.);
          { MatrixRectangular tmp = m2->evalCovMatrixOptim(W.dbin, nullptr); (void)tmp; }
          m2->setRangeIsotropic(0, r0);
          m2->setSill(0, 0, 0, s0);
        }
        if (m2 != nullptr)
        {
          if (s.drift > 0) m2->setDriftIRF(s.drift - 1, 0);
          delete W.model;
          W.model = m2;
          c.count("fault.incremental-model-route");
          c.fp("route" + std::to_string(route % 3));
        }
      }
      built = true;
      rb0 = readBack(W);
      c.begin(idx, "world");
      c.end(idx, rb0);
    }
    else if (op.kind == "observe")
    {
      if (!built) { c.line("Z observe-before-world"); return; }
      // the premises of a recipe hold at execution time too (a minimised or hand-written plan cannot leave them)
      if (!admissibleObs(op.S(0), W.spec)) { c.line("Z observed-call-outside-its-premises " + op.S(0)); return; }
      // arguments of the observed call: identical content in A and B
      std::string rb = readBack(W);
      c.obs("readback", rb);
      c.begin(idx, "observe." + op.S(0));
      Observed o;
      bool nomemo = !bare && p.knob("nomemo", 0) == 1;
      if (nomemo)
      {
        // result-neutral knob: the neighbourhood memo is dropped before every selection of the observed call
        g_faults.reset();
        Fault fm;
        fm.site = "neigh.nomemo";
        fm.occ = -1;
        g_faults.armed.push_back(fm);
        gstlearn_verif_cb = simkit_fault_cb;
      }
      try { o = observe(W, op, 0, &c, prop == "C13" && bare, bare ? 0 : p.knob("kroute", 0)); }
      catch (const std::exception& e) { o.ret = -7; o.digest = std::string("exception:") + e.what(); c.count("probe.observed-call-threw"); }
      if (nomemo)
      {
        gstlearn_verif_cb = nullptr;
        if (g_faults.fired) c.count("fault.neigh.nomemo", g_faults.fired);
        g_faults.reset();
      }
      c.end(idx, o.digest);
      c.obs("result", o.digest);
      c.fp("obs:" + op.S(0) + ":" + std::to_string(o.ret));
      if (bare && prop == "C13" && o.ret == 0)
      {
        // same recipe, other seed -> another realisation (fresh world, same construction)
        World W2;
        buildWorld(W2, W.spec);
        Observed o2 = observe(W2, op, 17, nullptr, false);
        bool degenerate = W2.dbout == nullptr || freeTargets(W2) < 2;
        if (op.S(0) == "gibbs") degenerate = W2.dbin->getSampleNumber(true) < 2;
        // a call that produced no defined value (e.g. every kriging system refused) has nothing that can vary
        // facies are discrete: two seeds may agree on a handful of nodes by chance (1/3 per node); 40 free values make that 1e-19
        long need = (op.S(0) == "simpgs" || op.S(0) == "simbipgs") ? 40 : 2;
        if (o2.freeDefined >= 0 && o2.freeDefined < need) { degenerate = true; c.count("probe.other-seed-too-few-free-values"); }
        if (o2.ret == 0 && o2.digest == o.digest && !degenerate)
          c.violation("C13|other-seed-same-result|" + op.S(0), "two different seeds gave bit-identical results");
        else c.count("probe.other-seed-differs");
      }
    }
    else if (op.kind.rfind("p.", 0) == 0)
    {
      if (bare) { idx++; continue; }
      if (!built && !globalOnly(op.kind)) { idx++; continue; }
      c.begin(idx, op.kind);
      World dummy;
      if (!built)
      {
        WorldSpec s;
        buildWorld(dummy, s);
      }
      try { perturb(built ? W : dummy, op, c); }
      catch (const std::exception& e) { c.count("fault.exception-in-perturbing-call"); gstlearn_verif_cb = nullptr; }
      c.fp(op.kind);
      if (built)
      {
        std::string rb = readBack(W);
        if (rb != rb0)
        {
          // which object moved
          std::string which;
          std::istringstream s0(rb0), s1(rb);
          std::string x0, x1;
          static const char* names[] = {"dbin", "dbout", "model", "neigh"};
          for (int q = 0; q < 4; q++)
          {
            std::getline(s0, x0, ':');
            std::getline(s1, x1, ':');
            if (x0 != x1) which += std::string(which.empty() ? "" : "+") + names[q];
          }
          c.violation(prop + "|argument-changed-by|" + op.kind + "|" + which, "a perturbing call that must not modify the recipe's objects changed the content of " + which);
          return;
        }
      }
      c.end(idx, "ok");
    }
    idx++;
  }
}

struct WorldWorkload : Workload
{
  std::string id;
  explicit WorldWorkload(const std::string& p) : id(p) {}
  std::string prop() const override { return id; }
  long defaultRuns(const Tier& t) const override { return t.thorough ? 100000 : 1200; }
  std::string rule() const override
  {
    if (id == "C13")
      return "a run = recipe (generated world + one seeded simulator call: turning bands conditional / non-conditional, FFT, Gibbs with defined bounds) executed bare "
             "in a fresh child (A) and after a seeded sequence of perturbing calls in a sibling child (B): results must be bit-identical; in A the same recipe with "
             "another seed must differ, simulation ranks must differ, data coinciding with target nodes must be reproduced (1e-8 relative), Gibbs values must lie "
             "in their bounds; distinct = (observed call, ordered perturbation kinds, outcome) hash; non-trivial = at least one perturbation executed in B";
    return "a run = recipe (generated world + one observed call among covariance matrices plain/optimised, kriging, cross-validation, variogram (+fit), migrate, "
           "seeded generators, simulations) executed bare in a fresh child (A) and interleaved with 1-12 seeded perturbing calls in a sibling child (B): failed "
           "requests on the same objects, other uses of the same Model/Neigh, generator draws, options toggled and restored, copy-then-mutate, incremental "
           "update-then-undo, calculators failed at injected stages, unrelated users of file statics; read-back of the argument objects must not move and the "
           "observed result must be bit-identical; distinct = (observed call, ordered perturbation kinds, fired hook sites) hash; non-trivial = at least one "
           "perturbation executed in B and results compared";
  }
  std::vector<std::string> realComponents() const override
  {
    return {"Model/ACov/CovAniso caches", "ANeigh memo", "KrigingSystem", "Law.cpp generator", "Vario", "CalcSimuTurningBands", "CalcSimuFFT", "Gibbs",
            "VectorT copy-on-write", "option tables", "Db"};
  }
  std::vector<std::string> stubComponents() const override { return {"failure sources behind hook sites (perturbation p.calc-injected)", "message sinks"}; }
  std::vector<std::string> assumptions() const override
  {
    return {"the library is deterministic for a fixed history of calls (checked by ./check selftest)", "documented global options are restored before the observed call",
            "recipes use seeds > 0 (seed <= 0 is documented to continue the current stream)"};
  }

  Plan generate(uint64_t seed, long run, const Tier&) override
  {
    Plan p;
    p.prop = id;
    p.seed = seed;
    p.run = run;
    Rng r = stream(seed, id, run, "shape");
    Rng ro = stream(seed, id, run, "ops");
    Op w;
    w.kind = "world";
    for (int a = 0; a < 19; a++) w.i.push_back(r.range(0, 1000));
    if (id == "C13") w.i[13] = 1; // data on nodes / on target points
    WorldSpec spec = specFromOp(w);
    Op o;
    o.kind = "observe";
    std::string k;
    for (int t = 0; t < 60; t++)
    {
      k = (id == "C13") ? OBS13[r.below(NOBS13)] : OBS10[r.below(NOBS10)];
      if (k == "kcalc" && !admissibleObs(k, spec))
      {
        // shape the world for the incremental-object recipe: one variable, no external drift, no undefined datum
        w.i[2] = 0; w.i[4] = 1; w.i[8] = 1;
        spec = specFromOp(w);
      }
      if (admissibleObs(k, spec)) break;
      k = (id == "C13") ? "simtub-nc" : "kriging";
    }
    if (!admissibleObs(k, spec)) { w.i[4] = 1; spec = specFromOp(w); } // drop the external drift
    o.s = {k};
    o.i = {r.range(1, 40000), r.range(0, 100), r.range(0, 100), r.range(0, 1000)};
    // swarm: subset of perturbation kinds enabled this run
    std::vector<std::string> enabled;
    double keep = r.uniform(0.2, 1.0);
    for (int q = 0; q < NPERTS; q++) if (r.chance(keep)) enabled.push_back(PERTS[q]);
    if (enabled.empty()) enabled.push_back("p.rng-draws");
    long np = r.chance(0.7) ? r.range(1, 5) : r.range(6, 12);
    auto mk = [&]() {
      Op q;
      q.kind = enabled[ro.below((long)enabled.size())];
      q.i = {ro.range(0, 1000), ro.range(0, 1000)};
      if (q.kind == "p.calc-injected")
      {
        static const char* sites[] = {"calc.check", "calc.preprocess", "calc.run", "calc.run", "calc.addvar", "krige.ready", "krige.estimate", "krige.status", "neigh.nomemo"};
        Fault f;
        f.site = sites[ro.below(9)];
        f.occ = (f.site == std::string("neigh.nomemo")) ? -1 : ro.below(3);
        q.f.push_back(f);
      }
      return q;
    };
    // some perturbations before the world exists, most between construction and use
    long nbefore = r.chance(0.3) ? r.range(1, 2) : 0;
    for (long i = 0; i < nbefore; i++) p.ops.push_back(mk());
    p.ops.push_back(w);
    for (long i = 0; i < np; i++) p.ops.push_back(mk());
    p.ops.push_back(o);
    // knobs of the perturbed sibling (B): model built by another route, neighbourhood memo dropped,
    // KrigingCalcul reached incrementally
    if (r.chance(0.35)) p.setKnob("route", r.range(1, 30));
    if (r.chance(0.35)) p.setKnob("nomemo", 1);
    p.setKnob("kroute", r.range(1, 100000));
    return p;
  }
  void execute(const Plan&, Ctx&) override {}

  RunResult runPlan(const Plan& p) override
  {
    RunResult rr;
    std::map<std::string, std::string> oa, ob;
    if (getenv("SIMKIT_INPROCESS_PERTURBED"))
    {
      // debugging aid (gdb, valgrind): the perturbed sibling alone, in this process
      Ctx c;
      execWorld(p, c, false, id);
      return rr;
    }
    ChildOutcome A = runChild([&](Ctx& c) { execWorld(p, c, true, id); }, 30);
    foldChild(A, rr, &oa);
    Violation v;
    if (deathViolation(id, A, v)) { v.sig += "|bare"; rr.viol.push_back(v); return rr; }
    ChildOutcome B = runChild([&](Ctx& c) { execWorld(p, c, false, id); }, 30);
    size_t nv = rr.viol.size();
    foldChild(B, rr, &ob);
    if (deathViolation(id, B, v)) { v.sig += "|perturbed"; rr.viol.push_back(v); return rr; }
    if (rr.viol.size() > nv) return rr; // in-run invariant already failed
    bool anyPert = false;
    for (auto& l : B.lines) if (l.rfind("B ", 0) == 0 && l.find(" p.") != std::string::npos) anyPert = true;
    if (!oa.count("result") || !ob.count("result")) return rr;
    std::string obsKind;
    for (auto& o : p.ops) if (o.kind == "observe") obsKind = o.S(0);
    if (oa["readback"] != ob["readback"])
    {
      Violation x;
      x.sig = id + "|readback-differs|" + obsKind;
      x.detail = "argument objects differ between bare and perturbed sibling although no perturbation reported a change";
      rr.viol.push_back(x);
      return rr;
    }
    if (oa["result"] != ob["result"])
    {
      Violation x;
      // name the last perturbation kinds for the signature: the shrinker reduces to the culprit
      std::string perts;
      int n = 0;
      for (auto& o : p.ops) if (o.kind.rfind("p.", 0) == 0) { if (n++ < 3) perts += (perts.empty() ? "" : "+") + o.kind; }
      if (n > 3) perts = "many";
      x.sig = id + "|history-dependent-result|" + obsKind;
      x.detail = "after " + perts + ": bare " + oa["result"] + " perturbed " + ob["result"];
      rr.viol.push_back(x);
    }
    else if (anyPert || p.knob("route", 0) > 0 || p.knob("nomemo", 0) == 1 || obsKind == "kcalc") { rr.nontrivial = true; rr.counters["probe.siblings-agree"]++; }
    return rr;
  }
};

} // namespace

namespace sk {
Workload* makeWorkload_C10() { return new WorldWorkload("C10"); }
Workload* makeWorkload_C13() { return new WorldWorkload("C13"); }
}
