// Shared generators of small geostatistical "worlds" (data, target, model, neighbourhood)
// used by the calc (C19) and world (C10, C13) workloads. Every choice comes from the plan
// arguments, never from the library's generator.
#pragma once
#include "gl.hpp"

#include "Enum/ECov.hpp"
#include "Model/Model.hpp"
#include "Neigh/ANeigh.hpp"
#include "Neigh/NeighMoving.hpp"
#include "Neigh/NeighUnique.hpp"
#include "Neigh/NeighImage.hpp"
#include "Enum/ELoadBy.hpp"
#include "Space/ASpaceObject.hpp"

namespace sk {

struct WorldSpec
{
  int ndim = 2;      // 1..3
  int nin = 12;      // data count
  int nvar = 1;      // 1..2
  int nx = 5;        // grid nodes per dimension
  int nfex = 0;      // external drifts (0..1)
  bool fexInData = true;
  int selIn = 0;     // 0 none, 1 partial selection on data
  int selOut = 0;    // 0 none, 1 partial selection on targets
  int outKind = 0;   // 0 grid, 1 points
  int undefIn = 0;   // some undefined data values
  int neighKind = 0; // 0 unique, 1 moving
  int nstruct = 1;   // covariance structures
  int covType = 0;   // index in type list
  int extraCols = 0; // unrelated pre-existing columns in both dbs
  int onNodes = 0;   // data placed exactly on target nodes (for conditioning checks)
  uint64_t seed = 1; // sub-seed for coordinates and values
  double range = 3.;
  int drift = 0;     // 0 none, 1 universality condition, 2 linear drift   (op.I(16), absent in older plans)
  int tightNeigh = 0; // moving neighbourhood with a small radius: some targets get too few data  (op.I(17))
  int nugget = 0;     // a nugget component in the model (op.I(18))
};

inline WorldSpec specFromOp(const Op& op)
{
  WorldSpec w;
  auto M = [](long a, long n) { return (int)(((a % n) + n) % n); };
  w.ndim = 1 + M(op.I(0), 3);
  if (M(op.I(0), 7) > 2) w.ndim = 2; // mostly 2-D
  w.nin = 6 + M(op.I(1), 25);
  w.nvar = 1 + M(op.I(2), 2);
  w.nx = 3 + M(op.I(3), w.ndim == 3 ? 2 : (w.ndim == 1 ? 12 : 5));
  w.nfex = M(op.I(4), 4) == 0 ? 1 : 0;
  w.fexInData = M(op.I(4), 8) != 0;
  w.selIn = M(op.I(5), 3) == 0;
  w.selOut = M(op.I(6), 3) == 0;
  w.outKind = M(op.I(7), 4) == 0 ? 1 : 0;
  w.undefIn = M(op.I(8), 4) == 0;
  w.neighKind = M(op.I(9), 2);
  w.nstruct = 1 + M(op.I(10), 2);
  w.covType = M(op.I(11), 5);
  w.extraCols = M(op.I(12), 3);
  w.onNodes = M(op.I(13), 2);
  w.seed = (uint64_t)op.I(14, 1) * 2654435761ULL + 17;
  w.range = 1.5 + M(op.I(15), 5);
  w.drift = M(op.I(16, 0), 3);
  w.tightNeigh = M(op.I(17, 0), 3) == 2;
  w.nugget = M(op.I(18, 0), 3) == 1;
  return w;
}

struct World
{
  WorldSpec spec;
  Db* dbin = nullptr;
  Db* dbout = nullptr;
  Model* model = nullptr;
  ANeigh* neigh = nullptr;
  ~World()
  {
    delete neigh;
    delete model;
    if (dbout != dbin) delete dbout;
    delete dbin;
  }
};

inline Model* buildModel(const WorldSpec& w, int nvarOverride = -1)
{
  static const ECov types[] = {ECov::SPHERICAL, ECov::EXPONENTIAL, ECov::CUBIC, ECov::GAUSSIAN, ECov::MATERN};
  int nvar = nvarOverride > 0 ? nvarOverride : w.nvar;
  VectorDouble sills;
  if (nvar == 2) sills = {1.5, 0.6, 0.6, 1.0};
  ECov t = types[w.covType % 5];
  if (t == ECov::GAUSSIAN) t = ECov::CUBIC; // keeps kriging systems well conditioned
  Model* m = Model::createFromParam(t, w.range, 1.2, 1., VectorDouble(), sills, VectorDouble(), nullptr, true);
  if (m == nullptr) return nullptr;
  if (w.nstruct > 1)
  {
    VectorDouble s2;
    if (nvar == 2) s2 = {0.4, 0.1, 0.1, 0.3};
    m->addCovFromParam(ECov::EXPONENTIAL, w.range * 2.5, 0.5, 1., VectorDouble(), s2);
  }
  if (w.nugget)
  {
    VectorDouble s3;
    if (nvar == 2) s3 = {0.3, 0., 0., 0.2};
    m->addCovFromParam(ECov::NUGGET, 0., 0.25, 1., VectorDouble(), s3);
  }
  return m;
}

inline void buildWorld(World& W, const WorldSpec& w)
{
  W.spec = w;
  defineDefaultSpace(ESpaceType::RN, w.ndim); // models and neighbourhoods take the default space
  Rng r(w.seed);
  int ndim = w.ndim;
  // target first (data may sit on its nodes)
  VectorInt nx(ndim, w.nx);
  VectorDouble dx(ndim, 1.0), x0(ndim, 0.0);
  DbGrid* grid = DbGrid::create(nx, dx, x0);
  int nout = grid->getSampleNumber();
  if (w.outKind == 1)
  {
    int np = 5 + (int)r.below(20);
    VectorDouble tab;
    for (int i = 0; i < np; i++)
      for (int d = 0; d < ndim; d++) tab.push_back(r.uniform(0, w.nx - 1));
    // (when data must sit on targets, the first data are moved onto the first target points below)
    VectorString names, locs;
    for (int d = 0; d < ndim; d++) { names.push_back(std::string("tx") + char('a' + d)); locs.push_back("x" + std::to_string(d + 1)); }
    W.dbout = Db::createFromSamples(np, ELoadBy::SAMPLE, tab, names, locs, true);
    nout = np;
  }
  else
    W.dbout = grid;
  // data: distinct locations
  int nin = w.nin;
  std::vector<std::vector<double>> xy;
  std::set<long> usedNodes;
  for (int i = 0; i < nin; i++)
  {
    std::vector<double> p(ndim);
    if (w.onNodes && w.outKind == 0 && i < 4 && (int)usedNodes.size() < grid->getSampleNumber())
    {
      long node;
      do { node = r.below(grid->getSampleNumber()); } while (usedNodes.count(node));
      usedNodes.insert(node);
      VectorDouble c = grid->getSampleCoordinates((int)node);
      for (int d = 0; d < ndim; d++) p[d] = c[d];
    }
    else if (w.onNodes && w.outKind == 1 && i < 4 && i < W.dbout->getSampleNumber())
    {
      // point target: the first data coincide with the first target points
      for (int d = 0; d < ndim; d++) p[d] = W.dbout->getCoordinate(i, d);
    }
    else
      for (int d = 0; d < ndim; d++) p[d] = r.uniform(-0.4, w.nx - 0.6) + 1e-3 * (i + 1);
    xy.push_back(p);
  }
  VectorDouble tab;
  VectorString names, locs;
  for (int d = 0; d < ndim; d++) { names.push_back(std::string("x") + char('a' + d)); locs.push_back("x" + std::to_string(d + 1)); }
  for (int v = 0; v < w.nvar; v++) { names.push_back(std::string("z") + char('a' + v)); locs.push_back("z" + std::to_string(v + 1)); }
  for (int i = 0; i < nin; i++)
  {
    for (int d = 0; d < ndim; d++) tab.push_back(xy[i][d]);
    for (int v = 0; v < w.nvar; v++)
    {
      double z = 10. + 3. * r.gauss() + 0.5 * xy[i][0];
      if (w.undefIn && r.chance(0.15) && i > 3) z = TEST;
      tab.push_back(z);
    }
  }
  W.dbin = Db::createFromSamples(nin, ELoadBy::SAMPLE, tab, names, locs, true);
  if (w.outKind == 1) delete grid;
  // external drift
  if (w.nfex > 0)
  {
    VectorDouble f(nout);
    for (int i = 0; i < nout; i++) f[i] = 1. + 0.3 * W.dbout->getCoordinate(i, 0) + 0.1 * r.gauss();
    W.dbout->addColumns(f, "drift", ELoc::F, 0);
    if (w.fexInData)
    {
      VectorDouble g(nin);
      for (int i = 0; i < nin; i++) g[i] = 1. + 0.3 * xy[i][0] + 0.1 * r.gauss();
      W.dbin->addColumns(g, "drift", ELoc::F, 0);
    }
  }
  // unrelated pre-existing columns
  for (int k = 0; k < w.extraCols; k++)
  {
    VectorDouble a(nin), b(nout);
    for (auto& x : a) x = r.gauss();
    for (auto& x : b) x = r.chance(0.1) ? TEST : r.gauss();
    W.dbin->addColumns(a, std::string("extra") + char('a' + k));
    W.dbout->addColumns(b, std::string("other") + char('a' + k));
  }
  if (w.selIn)
  {
    VectorDouble s(nin, 1.);
    for (int i = 4; i < nin; i++) if (r.chance(0.25)) s[i] = 0.;
    W.dbin->addSelection(s, "selin");
  }
  if (w.selOut)
  {
    VectorDouble s(nout, 1.);
    for (int i = 0; i < nout; i++) if (r.chance(0.3)) s[i] = 0.;
    W.dbout->addSelection(s, "selout");
  }
  W.model = buildModel(w);
  if (W.model != nullptr && w.nfex > 0) W.model->setDriftIRF(0, w.nfex);
  else if (W.model != nullptr && w.drift > 0) W.model->setDriftIRF(w.drift - 1, 0);
  if (w.neighKind == 0) W.neigh = NeighUnique::create(false);
  else
  {
    // NeighMoving without anisotropy coefficients assumes a 2-D space (BiTargetCheckDistance::_ndim = 2):
    // outside 2-D the isotropic coefficients are passed explicitly (see DESIGN, defects outside the claimed properties)
    VectorDouble coeffs;
    if (ndim != 2) coeffs = VectorDouble(ndim, 1.);
    double radius = w.tightNeigh ? 0.9 + 0.3 * w.range : w.range * 3. + 2.;
    W.neigh = NeighMoving::create(false, 8 + (int)r.below(6), radius, 1, 1, ITEST, coeffs);
  }
}

} // namespace sk
