// Which consistency rules do the API constructors enforce? One case per process (some calls crash):
//   for i in $(seq 0 32); do ./audit $i; done
// Result on the pinned tree (refused/threw = enforced; ACCEPTED = not a rule of API-built objects):
//   enforced: DbGrid nx<0 and dx<0, DbGraphO arcs (isConsistent), DbLine (isConsistent), Polygons under 3 vertices,
//             MeshEStandard/DbMeshStandard corner outside the apices (throws)
//   accepted: NeighMoving nmini>nmaxi, nsect 0; NeighBench width<0; NeighImage radius<0, skip<0, radius not sized by ndim;
//             SpaceRN(0); Rule rho=2, duplicate facies, leaf without facies, Rule::create() has no main node;
//             Table(-1,2); DbGrid nx 0, dx 0; MeshETurbo/DbMeshTurbo nx 0, nx<0, dx<=0; MeshEStandard meshes with ndim columns;
//             Model nvar 0, ndim 0; DirParam npas<0; DbMeshStandard with more apices than samples
#include "Neigh/NeighMoving.hpp"
#include "Neigh/NeighBench.hpp"
#include "Neigh/NeighImage.hpp"
#include "Neigh/NeighUnique.hpp"
#include "Neigh/NeighCell.hpp"
#include "Matrix/Table.hpp"
#include "Matrix/MatrixInt.hpp"
#include "Matrix/MatrixRectangular.hpp"
#include "LithoRule/Rule.hpp"
#include "LithoRule/RuleShift.hpp"
#include "Mesh/MeshEStandard.hpp"
#include "Mesh/MeshETurbo.hpp"
#include "Db/DbGrid.hpp"
#include "Db/DbMeshStandard.hpp"
#include "Db/DbMeshTurbo.hpp"
#include "Model/Model.hpp"
#include "Covariances/CovContext.hpp"
#include "Space/SpaceRN.hpp"
#include "Space/ASpaceObject.hpp"
#include <iostream>
#define T(name, expr) try { auto* p = (expr); std::cout << "RULE " << name << " : " << (p ? "ACCEPTED" : "refused") << std::endl; } catch (...) { std::cout << "RULE " << name << " : threw" << std::endl; }
int g_case=0, g_sel=-1;
#define CASE if (g_case++ == g_sel)
int main(int argc,char**argv)
{
  g_sel = atoi(argv[1]);
  defineDefaultSpace(ESpaceType::RN, 2);
  CASE { T("NeighMoving nmini>nmaxi", NeighMoving::create(false, 3, 10., 10)); }
  CASE { T("NeighBench negative width", NeighBench::create(false, -1.)); }
  CASE { T("NeighImage negative radius", NeighImage::create({-1, 2})); }
  CASE { SpaceRN s0(0); T("NeighUnique space dim 0", NeighUnique::create(false, &s0)); std::cout << "  SpaceRN(0).getNDim=" << s0.getNDim() << std::endl; }
  CASE { T("Rule rho=2", Rule::create(2.)); }
  CASE { Rule* r = Rule::create(2.); if (r) std::cout << "  rho kept " << r->getRho() << std::endl; }
  CASE { T("Rule names S F1 (one child)", Rule::createFromNames({"S", "F1"})); }
  CASE { Rule* r = Rule::createFromNames({"S", "F1"}); if (r) { std::cout << "  mainNode " << (r->getMainNode() != nullptr) << " nfac " << r->getFaciesNumber() << std::endl; } }
  CASE { T("Rule names S F1 F1 (dup facies)", Rule::createFromNames({"S", "F1", "F1"})); }
  CASE { Rule* r = Rule::createFromNames({"S", "F1", "F1"}); if (r) { std::cout << "  mainNode " << (r->getMainNode() != nullptr) << " nfac " << r->getFaciesNumber() << std::endl; } }
  CASE { T("Rule names empty", Rule::createFromNames({})); }
  CASE { Rule* r = Rule::createFromNames({}); if (r) std::cout << "  mainNode " << (r->getMainNode() != nullptr) << std::endl; }
  CASE { T("Rule codes leaf without facies", Rule::createFromCodes({0,0,0,1,1,0, 1,1,1,0,0,0, 1,1,2,0,0,2})); }
  CASE { Rule* r = Rule::createFromCodes({0,0,0,1,1,0, 1,1,1,0,0,0, 1,1,2,0,0,2}); if (r) std::cout << "  mainNode " << (r->getMainNode() != nullptr) << " nfac " << r->getFaciesNumber() << std::endl; }
  CASE { T("Rule faciescount 0", Rule::createFromFaciesCount(0)); }
  CASE { Rule* r = Rule::createFromFaciesCount(0); if (r) std::cout << "  mainNode " << (r->getMainNode() != nullptr) << std::endl; }
  CASE { T("Table -1 x 2", Table::create(-1, 2)); }
  CASE { T("DbGrid nx 0", DbGrid::create({0, 3})); }
  CASE { DbGrid* g = DbGrid::create({0, 3}); if (g) std::cout << "  nx0=" << g->getNX(0) << " nech=" << g->getSampleNumber() << std::endl; }
  CASE { T("DbGrid dx -1", DbGrid::create({2, 3}, {-1., 1.})); }
  CASE { DbGrid* g = DbGrid::create({2, 3}, {-1., 1.}); if (g) std::cout << "  dx0=" << g->getDX(0) << std::endl; }
  CASE { T("DbGrid dx 0", DbGrid::create({2, 3}, {0., 1.})); }
  CASE { DbGrid* g = DbGrid::create({2, 3}, {0., 1.}); if (g) std::cout << "  dx0=" << g->getDX(0) << std::endl; }
  CASE { T("MeshETurbo nx 0", MeshETurbo::create({0, 3})); }
  CASE { T("MeshETurbo nx -2", MeshETurbo::create({-2, 3})); }
  CASE { T("MeshETurbo dx 0", MeshETurbo::create({2, 3}, {0., 1.})); }
  for (int k = 0; k < 3; k++) CASE {
    MatrixRectangular ap(3, 2); ap.setValue(0,0,0.); ap.setValue(1,0,1.); ap.setValue(2,1,1.);
    MatrixInt me(1, 3); me.setValue(0,0,0); me.setValue(0,1,1); me.setValue(0,2,7);
    if (k==0) T("MeshEStandard apex out of range", MeshEStandard::createFromExternal(ap, me));
    MatrixInt m2(1, 2); m2.setValue(0,0,0); m2.setValue(0,1,1);
    if (k==1) T("MeshEStandard meshes 2 cols in 2-D", MeshEStandard::createFromExternal(ap, m2));
    if (k==2) T("DbMeshStandard apex out of range", DbMeshStandard::createFromExternal(ap, me));
  }
  CASE { CovContext c0(0, 2); T("Model nvar 0", Model::create(c0)); Model* m = Model::create(c0); if (m) std::cout << "  nvar=" << m->getVariableNumber() << std::endl; }
  return 0;
}
