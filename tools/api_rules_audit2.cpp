// second part of the audit (see api_rules_audit.cpp)
#include "Neigh/NeighMoving.hpp"
#include "Neigh/NeighImage.hpp"
#include "Matrix/Table.hpp"
#include "Matrix/MatrixInt.hpp"
#include "Matrix/MatrixRectangular.hpp"
#include "Matrix/NF_Triplet.hpp"
#include "LithoRule/Rule.hpp"
#include "LithoRule/Node.hpp"
#include "Mesh/MeshETurbo.hpp"
#include "Db/DbGrid.hpp"
#include "Db/DbGraphO.hpp"
#include "Db/DbMeshStandard.hpp"
#include "Db/DbMeshTurbo.hpp"
#include "Model/Model.hpp"
#include "Covariances/CovContext.hpp"
#include "Polygon/Polygons.hpp"
#include "Polygon/PolyElem.hpp"
#include "Variogram/Vario.hpp"
#include "Variogram/VarioParam.hpp"
#include "Variogram/DirParam.hpp"
#include "Space/SpaceRN.hpp"
#include "Space/ASpaceObject.hpp"
#include <iostream>
int g_case=0, g_sel=-1;
#define CASE if (g_case++ == g_sel)
int main(int argc,char**argv)
{
  g_sel = atoi(argv[1]);
  defineDefaultSpace(ESpaceType::RN, 2);
  CASE { Table* t = Table::create(-1, 2); std::cout << "RULE Table(-1,2): " << (t ? "ACCEPTED" : "refused"); if (t) std::cout << " rows=" << t->getNRows() << " cols=" << t->getNCols(); std::cout << std::endl; }
  CASE { Rule* r = Rule::create(0.); std::cout << "RULE Rule::create() main node: " << (r->getMainNode() ? "present" : "ABSENT (API-reachable)") << std::endl; }
  CASE { NeighMoving* n = NeighMoving::create(false, 10, 5., 1, 0); std::cout << "RULE NeighMoving nsect=0: " << (n ? "ACCEPTED nsect=" + std::to_string(n->getNSect()) : "refused") << std::endl; }
  CASE { NeighImage* n = NeighImage::create({1, 1}, -3); std::cout << "RULE NeighImage skip=-3: " << (n ? "ACCEPTED skip=" + std::to_string(n->getSkip()) : "refused") << std::endl; }
  CASE { NeighImage* n = NeighImage::create({1}); std::cout << "RULE NeighImage radius size 1 in 2-D: " << (n ? "ACCEPTED size=" + std::to_string(n->getImageRadius().size()) : "refused") << std::endl; }
  CASE { PolyElem e({0., 1.}, {0., 1.}); Polygons p; p.addPolyElem(e); std::cout << "RULE Polygons 2 vertices: ACCEPTED n=" << p.getPolyElemNumber() << " nx=" << p.getPolyElem(0).getX().size() << std::endl; }
  CASE { PolyElem e({0., 1., 2.}, {0., 1.}); Polygons p; p.addPolyElem(e); std::cout << "RULE Polygons x/y differ: n=" << p.getPolyElemNumber(); if (p.getPolyElemNumber()) std::cout << " nx=" << p.getPolyElem(0).getX().size() << " ny=" << p.getPolyElem(0).getY().size(); std::cout << std::endl; }
  CASE { DirParam* d = DirParam::create(-2, 1.); std::cout << "RULE DirParam npas=-2: " << (d ? "ACCEPTED npas=" + std::to_string(d->getLagNumber()) : "refused") << std::endl; }
  CASE { CovContext c(1, 0); Model* m = Model::create(c); std::cout << "RULE Model ndim 0: " << (m ? "ACCEPTED ndim=" + std::to_string(m->getDimensionNumber()) : "refused") << std::endl; }
  CASE { NF_Triplet t; t.add(0, 1, -2.); t.add(1, 2, 1.); VectorDouble tab = {0,0, 1,1, 2,2}; DbGraphO* g = DbGraphO::createFromSamples(3, ELoadBy::SAMPLE, tab, t); std::cout << "RULE DbGraphO negative arc weight: " << (g ? "ACCEPTED" : "refused") << std::endl; }
  CASE { NF_Triplet t; t.add(0, 7, 2.); VectorDouble tab = {0,0, 1,1, 2,2}; DbGraphO* g = DbGraphO::createFromSamples(3, ELoadBy::SAMPLE, tab, t); std::cout << "RULE DbGraphO arc end outside: " << (g ? "ACCEPTED" : "refused") << std::endl; }
  CASE { MatrixRectangular ap(4, 2); ap.setValue(1,0,1.); ap.setValue(2,1,1.); ap.setValue(3,0,1.); ap.setValue(3,1,1.);
         MatrixInt me(1, 3); me.setValue(0,0,0); me.setValue(0,1,1); me.setValue(0,2,2);
         VectorDouble tab = {1., 2.};
         DbMeshStandard* d = DbMeshStandard::createFromExternal(ap, me, ELoadBy::SAMPLE, tab, {"z"});
         std::cout << "RULE DbMeshStandard more apices than samples: " << (d ? "ACCEPTED nech=" + std::to_string(d->getSampleNumber()) + " napices=" + std::to_string(d->getNApices()) : "refused") << std::endl; }
  CASE { DbMeshTurbo* d = DbMeshTurbo::create({0, 3}); std::cout << "RULE DbMeshTurbo nx 0: " << (d ? "ACCEPTED" : "refused") << std::endl; }
  CASE { DbMeshTurbo* d = DbMeshTurbo::create({2, 3}, {0., 1.}); std::cout << "RULE DbMeshTurbo dx 0: " << (d ? "ACCEPTED" : "refused") << std::endl; }
  CASE { DbMeshTurbo* d = DbMeshTurbo::create({2, 3}, {-1., 1.}); std::cout << "RULE DbMeshTurbo dx -1: " << (d ? "ACCEPTED" : "refused") << std::endl; }
  CASE { DbGrid* d = DbGrid::create({-2, 3}); std::cout << "RULE DbGrid nx -2: " << (d ? "ACCEPTED nech=" + std::to_string(d->getSampleNumber()) : "refused") << std::endl; }
  return 0;
}
