#!/usr/bin/env python3
"""Compare a ctest log with the pinned baseline: every stable_pass test must pass."""
import json, re, sys
log = sys.argv[1]
b = json.load(open('/root/.vp/BASELINE.json'))
want = set(x.split('::')[0] for x in b['stable_pass'])
res = {}
for ln in open(log, errors='replace'):
    m = re.search(r'Test\s+#\d+:\s+(\S+)\s+\.+\s*(\*\*\*)?\s*(Passed|Failed|Not Run|Timeout|Exception|Subprocess aborted)', ln)
    if m:
        res[m.group(1)] = m.group(3)
bad = sorted(t for t in want if res.get(t) != 'Passed')
print("baseline tests: %d, passed: %d, not passed: %s" % (len(want), len(want) - len(bad), bad))
sys.exit(1 if bad else 0)
