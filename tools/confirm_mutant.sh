#!/bin/bash
# usage: confirm_mutant.sh <property id> <n>
# Confirms a seeded change produced in /tmp/wt_<id>/_mut/<n>: applies it in the scratch worktree, rebuilds,
# runs the demonstration (must FAIL) and the pinned test suite (must still pass), reverts, rebuilds and runs
# the demonstration again (must PASS). Writes /tmp/wt_<id>/_mut/<n>/confirm.txt
id=$1; n=$2; wt=/tmp/wt_$id; m=$wt/_mut/$n; out=$m/confirm.txt
cd $wt || exit 2
git checkout -q -- src include
exec > $out 2>&1
echo "== mutant $id/$n $(date)"
git apply --check $m/patch.diff || { echo "PATCH DOES NOT APPLY"; exit 1; }
build() { cmake --build _build -j5 2>&1 | tail -2; cmake --build _build --target build_tests -j5 2>&1 | tail -1; }
demo() { g++ -std=gnu++20 -O1 -g -I $wt/include -I $wt/_build -isystem /usr/include/eigen3 $m/demo.cpp -L $wt/_build/RelWithDebInfo -lgstlearn -Wl,-rpath,$wt/_build/RelWithDebInfo -o $m/demo.bin 2>&1 | tail -3; timeout 600 $m/demo.bin > $m/demo.out 2>&1; echo "demo exit=$? last: $(tail -1 $m/demo.out | cut -c1-200)"; }
git apply $m/patch.diff
echo "-- with change"; build; demo
ctest --test-dir _build -j5 --timeout 900 > $m/ctest_changed.log 2>&1
ctest --test-dir _build --rerun-failed --timeout 900 > $m/ctest_changed_rerun.log 2>&1
cat $m/ctest_changed.log $m/ctest_changed_rerun.log > $m/ctest_all.log
python3 - <<PY
import json,re
b=json.load(open('/root/.vp/BASELINE.json'))
want=set(x.split('::')[0] for x in b['stable_pass'])
res={}
for ln in open('$m/ctest_all.log',errors='replace'):
    mm=re.search(r'Test\s+#\d+:\s+(\S+)\s+\.+\s*(\*\*\*)?\s*(Passed|Failed|Not Run|Timeout|Exception|Subprocess aborted)',ln)
    if mm:
        if mm.group(3)=='Passed' or mm.group(1) not in res: res[mm.group(1)]=mm.group(3)
bad=sorted(t for t in want if res.get(t)!='Passed')
print("ctest with change: baseline tests not passing:",bad)
PY
git checkout -q -- src include
echo "-- clean again"; build; demo
echo "== done $(date)"
