#!/usr/bin/env python3
"""Regenerates /verif/MANIFEST.json (kept valid against /root/.vp/MANIFEST.schema.json)."""
import json, subprocess, sys
NA = {
"C01":"kriging = documented system: a pure function of (data, model, neighbourhood, target); no schedule, clock, fault, crash point or surviving state in the statement for a simulator to own (DESIGN §0, §4)",
"C02":"exactness/unbiasedness/linearity/invariance are metamorphic relations between a fixed number of independent pure calls; nothing to schedule or fail",
"C03":"positive definiteness and closed forms are properties of a pure function of parameters and point set",
"C04":"equality of two pure functions of the same input; the stateful cache facet (projected-point cache, neighbourhood memo, lazy kriging matrices) is decided under C10",
"C05":"relation between a call on masked data and a call on reduced data, both pure; the clause 'masked targets keep TEST' is asserted inside C19's success oracle",
"C06":"the selected neighbourhood set is a pure function of geometry and parameters",
"C12":"experimental variograms are a pure function of data and lag/direction specification",
"C14":"a statistical law over seeds; sampling seeds and computing ensemble statistics is input sampling with no history, fault or schedule involved",
"C15":"algebraic identities of pure linear operators and tolerances of iterative solvers; nothing to schedule or to fail",
"C16":"grid index/coordinate conversions are pure functions of grid geometry",
"C17":"auto-fit is a pure function of the experimental variogram, structure list, constraints and options",
"C18":"transforms and their inverses are pure functions of data and transform parameters",
"C20":"point-in-polygon is a pure function of polygon geometry and query point",
}
CHECKS = {
"C07": dict(level="exploration", ref="§4 C07",
  text="Seeded search over histories of public Db/DbGrid editing operations (well-formed and ill-formed), every op mirrored on an executable reference table model and all observers compared after every op, under ASan+UBSan; evidence, not proof: it samples histories (thousands per quick run, hundreds of thousands per thorough run) rather than enumerating them.",
  note="Trusts the reference model's reading of the documented semantics (DESIGN §4 C07 lists what is predicted and what is adopted); names restricted to [a-z]+ plus library-made suffixes because names are regular expressions in gstlearn; selection columns hold 0/1.",
  technique="deterministic simulation: seeded op-history search against a reference model (plan replay, ddmin shrinking)"),
"C08": dict(level="exploration", ref="§4 C08",
  text="Fault-free configuration of the simulated-disk workload: generated instances of every serialisable class are written through the real serialisers into an in-memory byte store (varying write-buffer sizes, container/prefix histories, repeated save/load chains) and reloaded; getters, probe queries and second-generation bytes must agree.",
  note="Equivalence is judged through the per-class getter tables and probe queries of sim/store.cpp; transient operating flags are not demanded back.",
  technique="deterministic simulation: write/read round trips on a simulated disk, fault-free baseline of the crash workload"),
"C09": dict(level="fault_enumeration", ref="§4 C09",
  text="Crash/corruption configuration of the simulated disk: for every sampled valid file the crash point is enumerated over byte prefixes (all write-event boundaries and interior cuts in quick, every byte in thorough) plus torn tails, lost/duplicated write events and token-level corruptions; the real loaders run on what survived, in forked children under ASan+UBSan with memory, CPU and step budgets; a returned object is judged against structural rules and the rules the API constructors enforce, then queried, saved and reloaded.",
  note="Exhaustive only over the prefixes of the sampled files, not over all byte strings; an exception escaping a loader counts as a crash because the SWIG layers translate none.",
  technique="deterministic simulation with fault injection: enumerated crash points and seeded corruptions on a simulated disk"),
"C10": dict(level="exploration", ref="§4 C10",
  text="Sibling-process history differential: the same recipe is executed bare in one fresh child and after a seeded sequence of perturbing calls (failed requests, other uses of the same objects, generator draws, option toggles restored, copy-then-mutate, incremental-then-undo) in another; observed results must be bit-identical, copies of every cloneable class independent of their source, and each direction of a multi-direction variogram equal to the same direction computed alone.",
  note="Bit equality is sound because the library is deterministic for a fixed history (checked by the determinism self-test); documented global options are restored before the observed call.",
  technique="deterministic simulation: seeded interleavings of perturbing calls, sibling-process differential oracle"),
"C11": dict(level="exploration", ref="§4 C11",
  text="Replicated state machine: one seeded op history applied to every storage (rectangular, square, symmetric, sparse/Eigen, sparse/cs) and to a naive reference model (magnitudes from 1e-8 to 1e8), with the thread count and the sparse back-end switched mid-history; replicas must stay within a forward error bound of the model, ill-formed ops must be refused.",
  note="Thread count is a seeded knob; interleavings inside Eigen/libgomp are not owned by the scheduler (DESIGN §8), each multi-thread run is executed twice and must hash identically.",
  technique="deterministic simulation: replicated op histories vs reference model with a seeded thread-count schedule"),
"C13": dict(level="exploration", ref="§4 C13",
  text="History differential specialised to simulators (turning bands conditional and not, FFT, Gibbs sampler, plurigaussian conditional and not): same seed after any prefix of other calls must reproduce bit for bit, other seed/rank must differ, plus conditioning, bounds and facies invariants evaluated on every simulated run.",
  note="Data sets have distinct locations (the premise of exact conditioning); tolerance at data points is that of the underlying kriging.",
  technique="deterministic simulation: seeded call histories around seeded simulators, sibling differential + output invariants"),
"C19": dict(level="fault_enumeration", ref="§4 C19",
  text="For each sampled calculator configuration a trace pass records every (hook site, occurrence) reached, then every single-fault placement is executed in its own child (all placements in thorough, strided cap in quick) together with natural failures; snapshots of both data bases before/after decide roll-back, and a repeat call decides usability.",
  note="Complete over single-fault placements of the sampled configurations only; hook sites mimic outcomes the callers already test for (the site after the last stage is traced but never armed: the shipped code cannot fail there).",
  technique="deterministic simulation with fault injection: enumerated single-fault placements at guarded hook sites, snapshot oracle"),
}
def main():
    built = sys.argv[1:]  # ids whose checks exist
    hooks = subprocess.run(["git","-C","/repo","log","--format=%H %s"],capture_output=True,text=True).stdout.splitlines()
    hook_commits = [l.split()[0] for l in hooks if " verif hook:" in l]
    checks = []
    for pid in sorted(built):
        c = CHECKS[pid]
        checks.append({
          "property_id": pid,
          "quick_cmd": "./check %s --tier quick" % pid,
          "thorough_cmd": "./check %s --tier thorough" % pid,
          "evidence_file": "/verif/evidence/%s.json" % pid,
          "replay_cmd_template": "./check %s --replay {path}" % pid,
          "engine": "simkit",
          "level_claimed": {"category": c["level"], "text": c["text"], "design_ref": c["ref"]},
          "level_note": c["note"],
          "technique": c["technique"],
        })
    na = [{"property_id":k,"reason":v} for k,v in NA.items()]
    for pid in sorted(CHECKS):
        if pid not in built:
            na.append({"property_id": pid, "reason": "applicable by DESIGN §0 but its check is not built yet in this commit; not claimed until it is"})
    m = {
     "version":1,
     "setup_cmd":"./check setup",
     "hooks":{"guard":"GSTLEARN_VERIF","enable":"./check setup configures /verif/build/asan with -DCMAKE_CXX_FLAGS='... -fsanitize=address,undefined -DGSTLEARN_VERIF' (static target); every check re-runs ninja there so /repo's working tree is what is tested",
       "baseline_off_cmd":"cmake --build /repo/_build -j16 && ctest --test-dir /repo/_build -j8 --timeout 900",
       "source_commits":hook_commits[::-1],"add_only":True},
     "engines":[{"name":"simkit","path":"/verif/sim","serves_properties":sorted(built),"kind_free_text":"seeded plan-based deterministic simulator (C++20, fork-per-run zygote, plan replay files, ddmin shrinker) around the real sanitised static library; python driver ./check"}],
     "checks":checks,
     "notes":"See DESIGN.md. Known findings in known_findings.txt; replay files of recorded findings in findings/; seeded breaking changes in seeded/.",
     "not_applicable":na,
    }
    json.dump(m,open("/verif/MANIFEST.json","w"),indent=1)
main()
