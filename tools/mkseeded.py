#!/usr/bin/env python3
"""Writes seeded/<id>-<n>/meta.json and SENSITIVITY.md from the table below (results of the trials
run with tools/confirm_mutant.sh and tools/try_mutant.sh; see DESIGN.md section 13)."""
import json, os

# id, n, file/function changed, what it needs to manifest, detection (check, first result, after strengthening)
T = [
 ("C07", 1, "String.cpp correctNewNameForDuplicates: single pass instead of rescanning",
  "names 'v' and 'v.1' both present with 'v.1' at a lower column index, then a third column renamed to 'v'",
  "caught by quick as first built", "C07|invariant|names-unique|op=setname (also setnamecol, setnameuid)", ""),
 ("C07", 2, "Db::setLocatorByUID: automatic rank computed before the list is cleaned",
  "a role type that already has holders, then a call with locatorIndex=-1 and cleanSameLocator=true",
  "caught by quick as first built", "C07|mismatch|roles|op=setlocuid, C07|invariant|column-has-two-roles|op=setloccol ...", ""),
 ("C07", 3, "Db::setArrayBySample: loop counter used as persistent identifier",
  "a column deleted in the middle, then setArrayBySample",
  "caught by quick as first built", "C07|mismatch|values|op=setarraysample", ""),
 ("C08", 1, "Model::_deserialize: rotation applied whenever the (never cleared) rotation vector is non-empty",
  "a rotated anisotropic structure followed by an unrotated anisotropic one in the same model",
  "caught by quick as first built", "C08|describe-differs|Model|cov#.rotated", ""),
 ("C08", 2, "Db::getArrayBySample: file-level static list of identifiers refreshed only when the column count changes",
  "two Dbs saved in one process with the same column count but different identifiers (delete a column, append another)",
  "MISSED by the first version (one object per child); caught after adding the sibling-save history (roundtrip mode 5)",
  "C08|describe-differs|<Db class>|col#.v[#] for all six Db classes", "store.cpp roundtrip mode 5: a sibling object is written first in the same process"),
 ("C08", 3, "Vario::_deserialize: direction coefficients and grid increments read in swapped order (grid-defined directions)",
  "a variogram whose direction is an oblique or multi-cell grid increment, e.g. grincr={2,1}",
  "MISSED by the first version (the generator built no grid-defined directions: computing them crashed the library); caught after the stale-direction defect of Vario.cpp was repaired in /repo and the generator extended",
  "C08|describe-differs|Vario|dir#.codir[#]", "store_classes.cpp makeVarioOnGrid (one Vario in seven has directions given as grid increments)"),
 ("C09", 1, "gslSafeGetline: CR followed by end of file puts the CR back and never reaches EOF",
  "a file whose last byte is a lone CR (CR+LF file cut between CR and LF)",
  "caught by quick as first built (damage kind cr-only leaves a lone CR at the end)", "C09|timeout|op=load.fmt.CSV (loader does not return)", ""),
 ("C09", 2, "csv_table_read: a data row may keep one value more than the header announces",
  "every data row has more fields than the header has names",
  "caught by quick as first built", "C09|sanitizer|bad-access@Db::_setNameByColIdx", ""),
 ("C09", 3, "Db::_deserialize: an undecodable locator is skipped but the columns are still indexed",
  "a Db file whose Locators record holds a unique-by-nature locator with a rank above 1 (code2, sel2, w2)",
  "the original patch no longer applies (the line was repaired by a fix: commit); the adapted patch (patch.adapted.diff: continue instead of return false) was MISSED by the first version and is caught after strengthening",
  "C09|sanitizer|bad-access@Db::_deserialize", "store.cpp: format-aware token dictionary (code2, sel2, w2 ...) and header-focused corruption (damage kind header-token-replace)"),
 ("C10", 1, "KrigingCalcul::_deleteZ no longer deletes beta",
  "a model with drift, a getter, then setData alone, then the getter again",
  "MISSED by the first version (KrigingCalcul not exercised); caught after adding the incremental KrigingCalcul recipe",
  "C10|history-dependent-result|kcalc", "world.cpp observed call kcalc (fresh object vs seeded sequence of updates interleaved with getters)"),
 ("C10", 2, "ACovAnisoList::delCov truncates the filtered flags instead of shifting them",
  "a filtered flag, then deletion of a structure that is not the last one",
  "MISSED by the first version; caught after adding model routes (same final model reached by another route in the perturbed sibling)",
  "C10|history-dependent-result|kriging, |xvalid", "world.cpp knob route"),
 ("C10", 3, "KrigingSystem::estimate: memo clean-up skipped when the system of one target cannot be built",
  "a target whose system is refused (too few data for the drift) followed by a target with the same neighbours",
  "caught after adding drift worlds with tight moving neighbourhoods and the neigh.nomemo knob during the observed call (reported as a memory error in the bare sibling: stale sizes)",
  "C10|sanitizer|bad-access@AMatrixDense::prodMatMatInPlace|bare", "worldgen drift/tightNeigh, world.cpp knob nomemo"),
 ("C11", 1, "VH::innerProduct(ptr,ptr,n): threaded fast path drops the last n % N products",
  "setMultiThread(N>=2) and vectors of at least 256 elements whose length is not a multiple of N",
  "MISSED by the first version (vectors of at most 40 elements); caught after strengthening",
  "C11|vector-reduction|VH::innerProduct|op=vecops", "matrep.cpp vecops: long vectors, thread switch inside the op, pointer and span overloads"),
 ("C11", 2, "AMatrixDense::prodMatMatInPlace: aliasing guard only for the first operand",
  "the destination passed as second operand only",
  "MISSED by the first version; caught after strengthening", "C11|values|MatrixRectangular|op=matmat-alias", "matrep.cpp op matmat-alias (destination passed as first, second or both operands)"),
 ("C11", 3, "MatrixSparse::operator= no longer copies the back-end flag",
  "assignment between a cs-backed and an Eigen-backed sparse matrix",
  "MISSED by the first version; caught after strengthening", "C11|values|MatrixSparse(cs)<-MatrixSparse(Eigen)|op=sparse-assign", "matrep.cpp op sparse-assign (assignment across back-ends, then the replicated operation set on the assigned object)"),
 ("C13", 1, "simpgs: seed given only for the first underlying Gaussian function",
  "non-conditional simpgs with a rule on the second Gaussian only, second call in a process",
  "MISSED by the first version (no plurigaussian observed call); caught after adding simpgs",
  "C13|history-dependent-result|simpgs", "world.cpp observed call simpgs"),
 ("C13", 2, "CalcSimuTurningBands::_updateData2ToTarget (point targets): distance accumulates across candidates",
  "conditional simtub on a point target whose points coincide with data, model with a nugget effect",
  "MISSED by the first version (no data on point targets, no nugget); caught after adding both",
  "C13|conditioning-not-exact|simtub", "worldgen nugget, data on the first target points"),
 ("C13", 3, "GibbsMulti::getSimulate reads the bounds with the compressed rank",
  "gibbs_sampler with per-sample intervals and a selection masking a sample that is not the last",
  "MISSED by the first version (Gibbs recipes excluded selections); caught after allowing them",
  "C13|gibbs-outside-bounds", "world.cpp admissibleObs(gibbs)"),
 ("C19", 1, "ACalculator::run: no roll-back in the std::exception branch",
  "a failure after pre-processing that surfaces as a standard exception (block kriging with a negative discretisation count)",
  "MISSED by the first version (hook sites threw AException only); caught after adding the calc.run.std site and the natural failure negative-discretisation",
  "C19|failure-left-changes|kriging|dbout:extra-column(...) and 39 others", "hook calc.run.std, calc.cpp ill-formed kind 13"),
 ("C19", 2, "ACalcDbToDb::_expandInformation: clean-up call always deletes every f-located column of dbin",
  "conditional simtub with an external drift and an input Db that carries its own drift column",
  "MISSED by the first version (simtub excluded with external drift); caught after allowing it",
  "C19|success-changed-input|simtub|dbin:missing-column", "calc.cpp admissible(simtub)"),
 ("C19", 3, "ACalcDbToDb::_cleanVariableDb: null-pointer guard disables roll-back when there is no input Db",
  "a non-conditional simulation failing after pre-processing",
  "caught by quick as first built", "C19|failure-left-changes|simtub_nc|dbout:extra-column(...), |simfft|...", ""),
]

FINAL = {}
def main():
    for pid, n, what, needs, how, sig, strengthened in T:
        d = "/verif/seeded/%s-%d" % (pid, n)
        os.makedirs(d, exist_ok=True)
        det = d + "/detect.txt"
        final = {}
        if os.path.exists(det):
            L = open(det).read().splitlines()
            final = {"patch_used": L[0].replace("patch: ", "") if L else "", "tree": L[1].replace("tree: ", "") if len(L) > 1 else "",
                     "exit": L[2].replace("exit: ", "") if len(L) > 2 else "",
                     "signatures": [l.split(" sig=")[1].split(" :: ")[0] for l in L if l.startswith("VIOLATION") and " sig=" in l]}
        FINAL[(pid, n)] = final
        meta = {
            "property": pid,
            "change": what,
            "needs_to_manifest": needs,
            "produced_by": "fresh sub-agent given only the property text and a scratch worktree of /repo",
            "confirmed": "tools/confirm_mutant.sh %s %d: patch applied in the scratch worktree, library and tests rebuilt, demo.cpp exits 1 "
                         "(FAIL) with the change and 0 (PASS) without, all 113 pinned tests pass with the change (confirm.txt)" % (pid, n),
            "checked_with": "tools/try_mutant.sh %s seeded/%s-%d/patch.diff: git -C /repo apply, ./check %s --tier quick, git -C /repo checkout" % (pid, pid, n, pid),
            "detection": how,
            "signature": sig,
            "strengthening": strengthened,
            "final_run": final,
        }
        json.dump(meta, open(d + "/meta.json", "w"), indent=1)
    with open("/verif/SENSITIVITY.md", "w") as f:
        f.write("# Sensitivity of the checks: seeded changes\n\n")
        f.write("Each change below was written by a fresh sub-agent that saw only the property text and a scratch worktree of /repo,\n"
                "compiles, passes the 113 pinned tests, and breaks the property on a demonstration input (seeded/<id>-<n>/demo.cpp,\n"
                "confirmed with tools/confirm_mutant.sh, output in confirm.txt). Detection was measured with tools/try_mutant.sh:\n"
                "`git -C /repo apply patch.diff`, `./check <ID> --tier quick`, `git -C /repo checkout -- .`.\n\n")
        f.write("| change | what was changed | history | strengthening that followed | final run (tools/run_seeded.sh on the final tree): exit, signatures |\n|---|---|---|---|---|\n")
        caught = 0
        for pid, n, what, needs, how, sig, strengthened in T:
            fin = FINAL.get((pid, n), {})
            if fin.get("exit") == "1" and fin.get("signatures"): caught += 1
            fs = ", ".join("`%s`" % s.replace("|", "\\|") for s in fin.get("signatures", [])[:4]) or "-"
            f.write("| %s-%d | %s (needs: %s) | %s | %s | exit %s: %s%s |\n" % (pid, n, what, needs, how, strengthened or "-", fin.get("exit", "?"), fs,
                    " (adapted patch: the original no longer applies after a fix: commit)" if "adapted" in fin.get("patch_used", "") else ""))
        f.write("\n%d of %d changes are reported (exit 1 with a VIOLATION line) by the quick tier of the final machinery on the final tree.\n" % (caught, len(T)))
        extra = "/verif/tools/sensitivity_extra.md"
        if os.path.exists(extra):
            f.write("\n" + open(extra).read())
main()
