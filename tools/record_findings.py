#!/usr/bin/env python3
"""Appends a 'finding:' entry (and a canary replay file) for every signature of the last run of a check
that is not listed yet. Used by the author after triage (never by the checks themselves)."""
import glob, os, re, shutil, sys
prop = sys.argv[1]
why = sys.argv[2] if len(sys.argv) > 2 else ""
R = '/verif/replays/%s/' % prop
known = set()
for ln in open('/verif/known_findings.txt'):
    m = re.match(r'finding:\s+property=(\S+)\s+sig=(\S+)', ln)
    if m: known.add(m.group(2))
os.makedirs('/verif/findings/%s' % prop, exist_ok=True)
out = []
import json
last = json.load(open('/verif/build/out/%s/last_run_violations.json' % prop))
for f in sorted(last.values()):
    lines = open(f).read().splitlines()
    sig = lines[0][7:].strip()
    det = lines[1][10:].strip() if len(lines) > 1 and lines[1].startswith('# detail:') else ''
    if sig in known: continue
    parts = sig.split('|')
    cat = parts[1]
    det = re.sub(r'==\d+==', '', det)
    det = re.sub(r'0x[0-9a-f]+', '0x..', det)[:260]
    if cat == 'budget-mem': txt = "the loader of %s sizes a container with a count read from the file without validating it: a file of a few hundred bytes requests a huge allocation (%s)" % (parts[2], det)
    elif cat == 'exception-escaped': txt = "an exception (%s) leaves the loader of %s on a damaged file; the bindings translate no exception, so the host process dies (%s)" % (parts[3] if len(parts) > 3 else '?', parts[2], det)
    elif cat == 'inconsistent-object': txt = "the loader of %s accepts a damaged file and returns an object that breaks a class invariant of API-built objects (%s)" % (parts[2], det)
    elif cat == 'sanitizer': txt = "memory error (%s) while loading a damaged file (%s)" % (parts[2], det[:200])
    elif cat == 'timeout': txt = "the loader does not return on a damaged file (watchdog) (%s)" % det
    elif cat.startswith('survivor'): txt = "the object returned for a damaged file cannot be %s (%s)" % ('saved' if 'savable' in cat else 'reloaded after being saved', det)
    else: txt = det
    name = re.sub(r'[^A-Za-z0-9]+', '-', sig[len(prop) + 1:]).strip('-').lower()[:90] + '.plan'
    shutil.copy(f, '/verif/findings/%s/%s' % (prop, name))
    out.append("finding: property=%s sig=%s %s%s; replay findings/%s/%s" % (prop, sig, txt.replace('\n', ' '), ("; " + why) if why else "", prop, name))
    known.add(sig)
open('/verif/known_findings.txt', 'a').write("".join(l + "\n" for l in out))
print("recorded", len(out))
