#!/usr/bin/env python3
"""After a fix: commit in /repo: replays the canary of every recorded finding of a property (3 times each,
some manifestations depend on the address-space layout) and turns the entries whose signature no longer
shows up into 'fixed:' lines naming the commit. The canary plans of retired entries are removed.
Used by the author after a repair (never by the checks themselves).
usage: retire_findings.py <ID> <commit> "<what failed>" [--dry]"""
import json, os, re, subprocess, sys
from concurrent.futures import ThreadPoolExecutor
prop, commit, why = sys.argv[1], sys.argv[2], sys.argv[3]
dry = "--dry" in sys.argv
drop = "--drop" in sys.argv  # false alarm corrected in the machinery: the entry is removed, not marked fixed
only = [a[7:] for a in sys.argv if a.startswith("--only=")]
V = "/verif"
env = dict(os.environ, ASAN_SYMBOLIZER_PATH="/usr/bin/llvm-symbolizer-14", VERIF_TIER="quick", OMP_NUM_THREADS="1", VERIF_SCRATCH="/dev/shm")
lines = open(V + "/known_findings.txt").read().split("\n")
ent = []
for i, l in enumerate(lines):
    m = re.match(r"finding:\s+property=(\S+)\s+sig=(\S+)\s.*replay (findings/\S+)", l)
    if m and m.group(1) == prop and (not only or any(o in m.group(2) for o in only)):
        ent.append((i, m.group(2), m.group(3).rstrip(";")))

def seen(e):
    i, sig, path = e
    if not os.path.exists(V + "/" + path):
        return (e, None)
    for k in range(3):
        r = subprocess.run([V + "/build/simkit", "replay", V + "/" + path], capture_output=True, text=True, env=env, timeout=600)
        for ln in r.stdout.splitlines():
            if ln.startswith("{"):
                try:
                    j = json.loads(ln)
                except Exception:
                    continue
                if any(v.get("sig") == sig for v in j.get("violations", [])):
                    return (e, True)
    return (e, False)

with ThreadPoolExecutor(12) as ex:
    res = list(ex.map(seen, ent))
n = 0
for (i, sig, path), s in res:
    if s is False:
        n += 1
        print("retired", sig)
        if not dry:
            lines[i] = None if drop else "fixed: property=%s %s sig=%s %s" % (prop, commit, sig, why)
            os.remove(V + "/" + path)
    elif s is None:
        print("no canary", sig, path)
if not dry:
    open(V + "/known_findings.txt", "w").write("\n".join(l for l in lines if l is not None))
print("retired %d of %d" % (n, len(ent)))
