#!/bin/bash
# Applies every seeded change (seeded/<id>-<n>/patch.adapted.diff if present, else patch.diff) to /repo in turn,
# runs the quick tier of the property's check, undoes the change and records the outcome in seeded/<id>-<n>/detect.txt.
# /repo must be clean; nothing else may use /repo meanwhile.
cd /verif
[ -z "$(git -C /repo status --porcelain --untracked-files=no)" ] || { echo "/repo is not clean"; exit 3; }
for d in seeded/*/; do
  d=${d%/}; name=$(basename $d); id=${name%-*}
  p=$d/patch.diff; [ -f $d/patch.adapted.diff ] && p=$d/patch.adapted.diff
  if [ -n "$1" ] && [[ "$name" != $1 ]]; then continue; fi
  echo "== $name ($p)"
  if ! git -C /repo apply --check /verif/$p 2>/dev/null; then echo "patch does not apply" | tee $d/detect.txt; continue; fi
  git -C /repo apply /verif/$p
  ./check $id > /tmp/seeded_$name.out 2>&1; rc=$?
  git -C /repo checkout -- .
  { echo "patch: $p"; echo "tree: $(git -C /repo log --format=%h -1)"; echo "exit: $rc"; grep "^VIOLATION\|^MACHINERY" /tmp/seeded_$name.out | cut -c1-300 | head -12; grep " tier=" /tmp/seeded_$name.out | tail -1; } > $d/detect.txt
  cat $d/detect.txt | head -6 | cut -c1-200
done
./check setup > /dev/null 2>&1
echo ALLDONE
