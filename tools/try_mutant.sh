#!/bin/bash
# usage: try_mutant.sh <property id> <patch file> <label> [extra check args]
# applies a seeded change to /repo, runs the property's check, undoes the change.
id=$1; patch=$2; label=$3; shift 3
cd /verif
git -C /repo apply --check $patch || { echo "patch does not apply to /repo"; exit 3; }
git -C /repo apply $patch
./check $id "$@" > /tmp/try_$label.out 2>&1; rc=$?
git -C /repo checkout -- .
echo "rc=$rc"; grep -c "^VIOLATION" /tmp/try_$label.out; grep "^VIOLATION\|MACHINERY" /tmp/try_$label.out | cut -c1-260 | head -8; tail -1 /tmp/try_$label.out | cut -c1-160
