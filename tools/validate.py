#!/usr/bin/env python3
"""Validates MANIFEST.json and evidence/*.json against the schemas in /root/.vp (run with python3-vt: needs jsonschema)."""
import json, glob, sys
import jsonschema
ok = True
def check(doc, schema, name):
    global ok
    try:
        jsonschema.validate(json.load(open(doc)), json.load(open(schema)))
        print("valid  ", name)
    except Exception as e:
        ok = False
        print("INVALID", name, str(e)[:300])
check("/verif/MANIFEST.json", "/root/.vp/MANIFEST.schema.json", "MANIFEST.json")
for f in sorted(glob.glob("/verif/evidence/*.json")):
    check(f, "/root/.vp/EVIDENCE.schema.json", f)
sys.exit(0 if ok else 1)
